"""C01 — totality: no input makes the analyzer panic, abort or hang.

Three parts (DESIGN §4 C01):

1. gen(ctx): the panic-site inventory of the anchored files is regenerated
   from the current source (lib/panicsites.py -> coq/gen/PanicSites.v) together
   with the hand-maintained map coq/PANIC_MAP.json (-> coq/gen/PanicMap.v); the
   obligation C01_every_panic_site_discharged is a vm_compute check that every
   site has an entry. Python additionally checks that every cited theorem is an
   obligation of the cited property, and Coq resolves every citation
   (coq/gen/PanicCites<Cnn>.v: one `Check` per cited theorem, compiled in run()).
2. The theorems about the literal actions and split_string (coq/model/Pipeline.v,
   coq/proofs/PipelineProofs.v), the chain of the actual mirrors
   (coq/model/PipelineMirrors.v) with its composition theorem
   C01_pipeline_mirrors_never_panic (the generic assembly over abstract stages, formerly the
   obligation C01_pipeline_total, is a lemma of Proofs.PipelineProofs only since the third audit).
3. run(ctx): engine `totality` — the real binary under a watchdog and an
   address-space limit on grammar-generated programs, byte-level mutants,
   arbitrary bytes and adversarial shapes, with all curves / levels / output
   options. Every exit status other than 0/1, every missing or inconsistent
   summary line, every panic message and every time-out is a failing input.
4. run(ctx), stage `chain` (lib/props/c01chain.py; second audit): the per-definition
   chain of Model.PipelineMirrors, extracted (coq/extract/chain.{v,ml}), on every
   definition the real parser + desugarer produce for the single-file sources of
   the run: the decidable hypotheses of the chain theorem evaluated, its conclusion
   cross-checked, its outcome class compared with the real into_cfg + into_ssa
   (harness/src/bin/liftfull.rs, mode `chain`)."""
import base64
import collections
import concurrent.futures
import json
import os
import re
import shutil
import subprocess
import time

import common
import grammargen
import panicsites
import sys
sys.path.insert(0, os.path.dirname(os.path.abspath(__file__)))
import c01chain  # noqa: E402

WATCHDOG_S = 20
AS_LIMIT = 4 << 30
MODEST_BYTES = 64 * 1024
MODEST_DEPTH = 64
CURVES = ["BN254", "BLS12_381", "GOLDILOCKS"]
LEVELS = ["INFO", "WARNING", "ERROR"]
SUMMARY = re.compile(r"^circomspect: (No issues found\.|1 issue found\.|([0-9]+) issues found\.)$")
CORPUS = os.path.join(common.VERIF, "corpus", "C01")


# --------------------------------------------------------------------------
# part 1: regenerated inventory
# --------------------------------------------------------------------------

def gen(ctx):
    # C01 re-checks the theorems of other properties that coq/PANIC_MAP.json cites: their property files must
    # build against the CURRENT source, so their regenerated fragments are refreshed first (each gen is a source scan)
    import importlib
    for f in sorted(os.listdir(os.path.join(common.VERIF, "lib", "props"))):
        if f.startswith("C") and f.endswith(".py") and f[:-3] != "C01":
            try:
                mod = importlib.import_module("props." + f[:-3])
                if hasattr(mod, "gen"):
                    mod.gen(common.Ctx(f[:-3], "quick", 1))
            except Exception as e:      # reported when the citations are compiled
                common.log("C01 gen: regenerating the fragments of %s failed: %r" % (f[:-3], e))
    panicsites.generate()


# --------------------------------------------------------------------------
# running the binary
# --------------------------------------------------------------------------

def build_cli_release():
    with common.Lock("cargo-cli" + common.ALT_TAG):
        env = dict(common.ENV)
        env["CARGO_TARGET_DIR"] = common.TARGET_CLI
        t0 = time.time()
        rc, out, err = common.sh(["cargo", "build", "--offline", "--quiet", "--release", "-p", "circomspect"],
                                 cwd=common.REPO, env=env, timeout=2400)
        if rc != 0:
            raise common.BuildError("cargo build --release of the circomspect binary failed", err[-4000:])
        common.log("cli (release) built in %.1fs" % (time.time() - t0))
    return os.path.join(common.TARGET_CLI, "release", "circomspect")


class Case:
    """files: {relative name: bytes}; argv: the command line after the binary
    (file names relative to the case directory, options)."""

    def __init__(self, kind, files, argv, depth=None, note="", links=None, cwd=""):
        self.kind = kind
        self.files = files
        self.argv = argv            # `{ROOT}` in an argument stands for the canonical absolute path of the case directory
        self.depth = depth
        self.note = note
        self.links = links or {}    # {relative name: symlink target (relative to the link's directory)}
        self.cwd = cwd              # working directory of the run, relative to the case directory

    def size(self):
        return sum(len(v) for v in self.files.values())

    def to_json(self):
        return {"kind": self.kind, "argv": self.argv, "note": self.note, "depth": self.depth,
                "links": self.links, "cwd": self.cwd,
                "files": {k: base64.b64encode(v).decode() for k, v in self.files.items()}}

    @staticmethod
    def from_json(d):
        return Case(d.get("kind", "replay"), {k: base64.b64decode(v) for k, v in d["files"].items()}, d["argv"],
                    d.get("depth"), d.get("note", ""), d.get("links"), d.get("cwd", ""))


RUN_ENV = {"PATH": "/usr/bin:/bin", "RUST_BACKTRACE": "0", "HOME": "/tmp", "NO_COLOR": "1"}


TRACE_ENV = {"RUST_LOG": "circomspect_program_structure::control_flow_graph::cfg=debug"}
PHASE_START = re.compile(r"propagating (constant values|expression degrees) for `([^`]*)`")
PHASE_ANY = re.compile(r"DEBUG circomspect_program_structure::control_flow_graph::cfg\s*> (propagating|computing variable use|"
                       r"converting `|failed to propagate|basic block )")


def run_traced(cmd, d, watchdog):
    """Runs cmd with the tool's own debug log of cfg.rs switched on and stamps every log line with its arrival
    time.  -> (rc, timed_out, stdout, stderr, phases) where phases lists, per definition and per time-boxed
    phase (value / degree propagation), how long the phase lasted: from its `propagating ..` line to the next
    log line of cfg.rs that is not part of it (`failed to propagate ..` is the box firing and ends the phase)."""
    import threading
    env = dict(RUN_ENV)
    env.update(TRACE_ENV)
    out_path = os.path.join(d, ".stdout")
    t0 = time.time()
    marks = []          # (t, kind, name) kind in value/degree/end/boxfired
    err_tail = collections.deque(maxlen=60)
    with open(out_path, "wb") as fo:
        p = subprocess.Popen(cmd, cwd=d, env=env, stdin=subprocess.DEVNULL, stdout=fo, stderr=subprocess.PIPE)

        def pump():
            for raw in p.stderr:
                now = time.time() - t0
                line = raw.decode("utf-8", "replace")
                m = PHASE_START.search(line)
                if m:
                    marks.append((now, "value" if m.group(1).startswith("constant") else "degree", m.group(2)))
                elif PHASE_ANY.search(line):
                    marks.append((now, "boxfired" if "failed to propagate" in line else "end", ""))
                if " DEBUG " not in line[:12]:
                    err_tail.append(line)
        th = threading.Thread(target=pump, daemon=True)
        th.start()
        timed_out = False
        try:
            rc = p.wait(timeout=watchdog)
        except subprocess.TimeoutExpired:
            timed_out = True
            p.kill()
            p.wait()
            rc = None
        th.join(timeout=5)
    end = time.time() - t0
    phases = []
    open_phase = None
    for t, kind, name in marks + [(end, "end", "")]:
        if open_phase and kind != "boxfired":
            phases.append({"definition": open_phase[2], "phase": open_phase[1], "seconds": round(t - open_phase[0], 2),
                           "box_fired": open_phase[3]})
            open_phase = None
        if kind in ("value", "degree"):
            open_phase = [t, kind, name, False]
        elif kind == "boxfired" and open_phase:
            open_phase[3] = True
    try:
        out = open(out_path, "rb").read()
        os.remove(out_path)
    except OSError:
        out = b""
    return rc, timed_out, out, "".join(err_tail).encode("utf-8"), phases


def run_case(binary, case, root, tag, watchdog=None, trace=False):
    d = os.path.join(root, str(tag))
    shutil.rmtree(d, ignore_errors=True)
    os.makedirs(d)
    for name, data in case.files.items():
        p = os.path.join(d, name)
        os.makedirs(os.path.dirname(p), exist_ok=True)
        if name.endswith("/"):
            os.makedirs(p, exist_ok=True)
            continue
        with open(p, "wb") as f:
            f.write(data)
    real_root = os.path.realpath(d)
    for name, target in case.links.items():
        p = os.path.join(d, name)
        os.makedirs(os.path.dirname(p), exist_ok=True)
        os.symlink(target.replace("{ROOT}", real_root), p)
    cmd = ["prlimit", "--as=%d" % AS_LIMIT, "--", binary] + [a.replace("{ROOT}", real_root) for a in case.argv]
    case_dir = d
    if case.cwd:
        d = os.path.join(d, case.cwd)
        os.makedirs(d, exist_ok=True)
    t0 = time.time()
    timed_out = False
    phases = None
    if trace:
        rc, timed_out, out, err, phases = run_traced(cmd, d, watchdog or WATCHDOG_S)
    else:
        try:
            p = subprocess.run(cmd, cwd=d, env=RUN_ENV, stdin=subprocess.DEVNULL, stdout=subprocess.PIPE,
                               stderr=subprocess.PIPE, timeout=watchdog or WATCHDOG_S)
            rc, out, err = p.returncode, p.stdout, p.stderr
        except subprocess.TimeoutExpired as e:
            timed_out = True
            rc, out, err = None, e.stdout or b"", e.stderr or b""
    wall = time.time() - t0
    out_t = out.decode("utf-8", "replace")
    err_t = err.decode("utf-8", "replace")
    res = {"rc": rc, "timed_out": timed_out, "wall": round(wall, 3), "stdout_tail": out_t[-600:],
           "stderr_tail": err_t[-900:], "dir": case_dir}
    if phases is not None:
        res["phases"] = phases
    lines = [l for l in out_t.split("\n") if l.strip()]
    res["last_line"] = (lines[-1] if lines else "")[:200]
    res["analysed"] = out_t.count("circomspect: analyzing ")
    res["codes"] = sorted(set(re.findall(r"\[(CS\d{4}|P\d{4}|[A-Z]{1,3}\d{3,4})\]", out_t)))
    res["heads"] = sorted(set(re.findall(r"(?m)^(error|warning|note|info)(?:\[[^\]]*\])?:", out_t)))
    m = re.search(r"panicked at ([^\n]*)", err_t)
    res["panic"] = m.group(0)[:300] if m else None
    if "has overflowed its stack" in err_t:
        res["panic"] = "stack overflow"
    if "memory allocation of" in err_t:
        res["panic"] = "memory allocation failed"
    return res


def judge(res, sarif=None):
    """The property, evaluated on one observed run: list of what failed."""
    bad = []
    if res["timed_out"]:
        bad.append("no termination within %d s" % WATCHDOG_S)
        return bad
    if res["panic"]:
        bad.append(res["panic"])
    if res["rc"] not in (0, 1):
        bad.append("exit status %s" % res["rc"])
    m = SUMMARY.match(res["last_line"])
    if not m:
        bad.append("no summary line (last line of stdout: %r)" % res["last_line"][:120])
    else:
        clean = m.group(1) == "No issues found."
        if res["rc"] in (0, 1) and clean != (res["rc"] == 0):
            bad.append("summary %r inconsistent with exit status %s" % (m.group(1), res["rc"]))
    return bad


def signature(res):
    if res["timed_out"]:
        return "timeout"
    if res["panic"]:
        p = res["panic"]
        m = re.search(r"panicked at ([^\s:]+:\d+)", p)
        return "panic " + (m.group(1) if m else p[:60])
    if res["rc"] not in (0, 1):
        return "exit %s" % res["rc"]
    return "summary"


# --------------------------------------------------------------------------
# nesting depth estimate (upper bound on the depth of the syntax tree)
# --------------------------------------------------------------------------

TOK = re.compile(rb'"[^"]*"|[A-Za-z_$][A-Za-z_$0-9]*|0x[0-9A-Fa-f]+|[0-9]+|[(){}\[\];]|[-+*/\\%&|^<>=!~?:.,]+|\s+|.', re.S)
NESTERS = {b"if", b"else", b"while", b"parallel"}
OPER = re.compile(rb"[-+*/\\%&|^<>=!~?:]+$")


def strip_comments(data):
    data = re.sub(rb"/\*.*?\*/", b" ", data, flags=re.S)
    return re.sub(rb"//[^\n]*", b" ", data)


def nesting_depth(data, operators=True):
    """(operators=False: brackets and nesting keywords only - the measure of the RESOURCE class, fourth audit: a flat
    chain of 65 operators is a 65-level tree for the recursion of the stack class, but it is no nesting of loops,
    indices, calls or components, which is what C01-deep-nesting-resources is about.)
    Upper estimate of the syntax-tree depth of a source text: the number of
    open brackets, plus, per open bracket level, the number of nesting keywords
    (`if`, `else`, `while`, `parallel`; a `for` counts 3: it desugars into
    block / while / block) and operator tokens since the last `;` at that
    level. An `else` chain `if .. {} else if .. {} else ..` accumulates because
    no `;` separates its links."""
    best = 0
    run = [0]          # operator/keyword run per open bracket level
    closed = False     # the previous token closed a block
    for m in TOK.finditer(strip_comments(data)):
        t = m.group(0)
        if t.isspace() or t.startswith(b'"'):
            continue
        if closed and t != b"else":
            run[-1] = 0            # `{..} if ..`: the next statement, not a deeper one
        closed = t == b"}"
        if t in (b"(", b"[", b"{"):
            run.append(0)
        elif t in (b")", b"]", b"}"):
            if len(run) > 1:
                run.pop()
        elif t == b";":
            run[-1] = 0
        elif t == b"for":
            run[-1] += 3
        elif t in NESTERS:
            run[-1] += 1
        elif OPER.match(t) and operators:
            run[-1] += 1
        best = max(best, len(run) - 1 + sum(run))
    return best


# --------------------------------------------------------------------------
# generators
# --------------------------------------------------------------------------

def rand_opts(rng, sarif_ok=True):
    o = []
    if rng.random() < 0.7:
        o += ["--curve", rng.choice(CURVES + ["bn254", "bls12_381", "goldilocks"])]
    if rng.random() < 0.7:
        o += [rng.choice(["--level", "-l"]), rng.choice(LEVELS + ["info", "warning", "error"])]
    if rng.random() < 0.3:
        o += ["--verbose"]
    if sarif_ok and rng.random() < 0.3:
        o += ["--sarif-file", "out.sarif"]
    if rng.random() < 0.2:
        o += ["--allow", rng.choice(["CS0001", "CS0005", "CS0008", "CS0013", "P1000", "nonsense"])]
    return o


def grammar_cases(ctx, n, counts, stats):
    rng = ctx.rng
    out = []
    for i in range(n):
        g = grammargen.Gen(rng, max_depth=rng.choice([3, 4, 5, 6]), wild=rng.choice([0.0, 0.05, 0.12, 0.3]),
                           max_stmts=rng.choice([3, 5, 8]))
        files = {}
        argv = []
        links = {}
        r = rng.random()
        if r < 0.7:
            src = g.program()
            files["main.circom"] = src
            argv = ["main.circom"]
        elif r < 0.85:            # a library file included by the main file
            lib = g.program(n_defs=rng.randrange(1, 4), with_main=False)
            src = g.program(includes=["lib.circom"] + (["missing.circom"] if rng.random() < 0.2 else []))
            files["lib.circom"] = lib
            files["main.circom"] = src
            argv = ["main.circom"]
        else:                     # several input files, library directory
            files["a.circom"] = g.program(with_main=False)
            files["b.circom"] = g.program(with_main=False)
            files["lib/l.circom"] = grammargen.Gen(rng, 4).program(n_defs=2, with_main=False)
            argv = ["a.circom", "b.circom"]
            if rng.random() < 0.5:
                # follow-up of the third audit: the library directory in a random spelling; in half of these projects an
                # include cycle / self-include / diamond that is resolved through the library only
                label, largs, lk, _cwd = rng.choice([x for x in LIB_SPELLINGS if not x[3]])
                links = dict(lk)
                files["work/.keep"] = ""
                for la in largs:
                    argv += ["-L", la]
                if rng.random() < 0.5:
                    form = rng.choice(["cycle", "self", "diamond"])
                    q_inc = {"cycle": 'include "r/s.circom";\n', "self": 'include "p/q.circom";\n', "diamond": 'include "r/s.circom";\n'}[form]
                    s_inc = {"cycle": 'include "p/q.circom";\n', "self": "", "diamond": ""}[form]
                    files["lib/p/q.circom"] = q_inc + grammargen.Gen(rng, 3).program(n_defs=1, with_main=False)
                    files["lib/r/s.circom"] = s_inc + grammargen.Gen(rng, 3).program(n_defs=1, with_main=False)
                    files["a.circom"] = 'include "p/q.circom";\n' + ('include "r/s.circom";\n' if form == "diamond" else "") + files["a.circom"]
                    stats["library_include_graphs_generated"].append(form + "/" + label)
            argv += (["nosuch.circom"] if rng.random() < 0.2 else [])
            if rng.random() < 0.5:
                # third audit: a name of a.circom is defined again in b.circom, as the same or as the OTHER kind
                names = re.findall(r"\b(template|function)\s+([A-Za-z_][A-Za-z0-9_]*)", files["a.circom"])
                if names:
                    kind, nm = rng.choice(names)
                    other = rng.choice(["template", "function", kind])
                    files["b.circom"] += ("\n%s %s(%s) { %s }\n" % (
                        other, nm, rng.choice(["", "q", "q, r"]),
                        "return 1;" if other == "function" else "signal input i_; signal output o_; o_ <== i_;"))
                    stats["cross_file_name_clashes"].append(kind + "/" + other)
            if rng.random() < 0.4:
                # fourth audit: the inputs are given as a DIRECTORY that holds 0..3 symbolic links to itself, its parent, a
                # sibling directory (which links back) or a file
                files = {("proj/" + k if not k.startswith("lib/") and not k.startswith("work/") else k): v for k, v in files.items()}
                argv = [("proj" if a in ("a.circom",) else a) for a in argv if a != "b.circom"]
                nl = rng.randrange(4)
                for j in range(nl):
                    where, target = rng.choice([("proj/l%d", "."), ("proj/l%d", ".."), ("proj/l%d", "../lib"), ("lib/l%d", "../proj"),
                                                ("proj/l%d.circom", "a.circom"), ("lib/l%d", ".")])
                    links[where % j] = target
                files.setdefault("lib/.keep", "")
                stats["named_directory_links"].append(str(nl))
        if rng.random() < 0.35:
            files = {k: grammargen.relex(v, rng) for k, v in files.items()}
        counts.update(g.counts)
        stats["grammar_bytes"].append(sum(len(v) for v in files.values()))
        out.append(Case("grammar", {k: v.encode("utf-8") for k, v in files.items()}, argv + rand_opts(rng), links=links))
    return out


DICT = [b"template", b"function", b"signal", b"input", b"output", b"component", b"var", b"if", b"else", b"for",
        b"while", b"return", b"log", b"assert", b"include", b"pragma circom", b"main", b"public", b"parallel",
        b"custom", b"<==", b"==>", b"<--", b"-->", b"===", b"=", b"(", b")", b"[", b"]", b"{", b"}", b";", b",",
        b"?", b":", b"0x", b"0xg", b"0", b"1", b"_", b"\"", b"/*", b"*/", b"//", b"\\", b"**", b"<<", b">>", b"%",
        b"/", b"++", b"--", b"+=", b"\xc3\xa9", b"\xe2\x82\xac", b"\xf0\x9f\x98\x80", b"\xff", b"\xc3", b"\x00",
        b"\xef\xbb\xbf", b"\r\n", b"99999999999999999999999", b"1 << 100000000000", b"5 % 0", b"1 / 0", b"1 \\ 0",
        b"(a, a)", b"A()(a)", b"x_0", b"x.y.z", b"[0]"]


BINOPS = [b"+", b"-", b"*", b"/", b"\\", b"%", b"**", b"<<", b">>", b"&", b"|", b"^", b"&&", b"||", b"==", b"!=", b"<",
          b">", b"<=", b">="]
ASSIGNS = [b"=", b"<==", b"<--", b"+=", b"-=", b"*=", b"/=", b"\\=", b"%=", b"**=", b"<<=", b">>=", b"&=", b"|=", b"^="]
NUMBERS = [b"0", b"1", b"2", b"253", b"254", b"255", b"256", b"0x0", b"0xFF", b"18446744069414584321",
           b"21888242871839275222246405745257275088548364400416034343698204186575808495617",
           b"21888242871839275222246405745257275088548364400416034343698204186575808495616",
           b"52435875175126190479447740508185965837690552500527637822603658699938581184513", b"100000000000",
           b"115792089237316195423570985008687907853269984665640564039457584007913129639936"]


def smart_mutate(rng, data):
    """Token-level mutation that tends to keep the text parseable: operators,
    numbers and identifiers are replaced by tokens of their own class,
    statements are duplicated, deleted or moved."""
    toks = [m.group(0) for m in TOK.finditer(data)]
    if not toks:
        return data
    idents = [t for t in toks if re.match(rb"[A-Za-z_$][A-Za-z_$0-9]*$", t) and t.decode("latin-1") not in grammargen.KEYWORDS]
    for _ in range(rng.choice([1, 1, 2, 3, 6])):
        r = rng.random()
        i = rng.randrange(len(toks))
        for j in list(range(i, len(toks))) + list(range(i)):
            t = toks[j]
            if r < 0.25 and t in BINOPS:
                toks[j] = rng.choice(BINOPS)
                break
            if 0.25 <= r < 0.35 and t in ASSIGNS:
                toks[j] = rng.choice(ASSIGNS[:3] if rng.random() < 0.7 else ASSIGNS)
                break
            if 0.35 <= r < 0.55 and re.match(rb"(0x[0-9A-Fa-f]+|[0-9]+)$", t):
                toks[j] = rng.choice(NUMBERS)
                break
            if 0.55 <= r < 0.75 and idents and t in idents:
                toks[j] = rng.choice(idents)
                break
            if 0.75 <= r < 0.9 and t == b";":
                # statement ending here: duplicate, delete or move it
                k = j - 1
                while k >= 0 and toks[k] not in (b";", b"{", b"}"):
                    k -= 1
                stmt = toks[k + 1:j + 1]
                what = rng.random()
                if what < 0.5:
                    toks[j + 1:j + 1] = stmt * rng.choice([1, 1, 3])
                elif what < 0.8:
                    del toks[k + 1:j + 1]
                else:
                    del toks[k + 1:j + 1]
                    semis = [x for x, tt in enumerate(toks) if tt == b";"]
                    if semis:
                        at = rng.choice(semis) + 1
                        toks[at:at] = stmt
                break
            if r >= 0.9 and t in (b"var", b"signal", b"component", b"input", b"output", b"if", b"while", b"for", b"return",
                                  b"template", b"function"):
                toks[j] = rng.choice([b"var", b"signal", b"component", b"signal input", b"signal output", b"if", b"while"])
                break
        if not toks:
            break
    return b"".join(toks)


def mutate(rng, data, pool):
    if rng.random() < 0.6:
        return smart_mutate(rng, data)
    data = bytearray(data)
    for _ in range(rng.choice([1, 1, 1, 2, 3, 5])):
        r = rng.random()
        n = len(data)
        pos = rng.randrange(n + 1)
        if r < 0.15 and n:
            data[rng.randrange(n)] = rng.randrange(256)
        elif r < 0.25 and n:
            i = rng.randrange(n)
            data[i] ^= 1 << rng.randrange(8)
        elif r < 0.4 and n:
            i = rng.randrange(n)
            del data[i:i + rng.choice([1, 1, 2, 4, 16, 64])]
        elif r < 0.6:
            data[pos:pos] = rng.choice(DICT)
        elif r < 0.7 and n:
            i = rng.randrange(n)
            chunk = data[i:i + rng.choice([1, 4, 16, 64, 256])]
            data[pos:pos] = chunk * rng.choice([1, 2, 2, 8])
        elif r < 0.8:
            other = rng.choice(pool)
            if other:
                i = rng.randrange(len(other))
                data[pos:pos] = other[i:i + rng.choice([8, 32, 128, 512])]
        elif r < 0.87:
            del data[pos:]
        elif r < 0.93 and n:
            # swap two tokens
            toks = [m.group(0) for m in TOK.finditer(bytes(data))]
            if len(toks) > 3:
                i, j = rng.randrange(len(toks)), rng.randrange(len(toks))
                toks[i], toks[j] = toks[j], toks[i]
                data = bytearray(b"".join(toks))
        else:
            # replace one token by a dictionary entry
            toks = [m.group(0) for m in TOK.finditer(bytes(data))]
            if toks:
                toks[rng.randrange(len(toks))] = rng.choice(DICT)
                data = bytearray(b"".join(toks))
    return bytes(data)


def repo_snippets():
    """/repo ships no example circuits; its unit tests embed Circom programs as
    raw string literals. They serve as the tool's own corpus for the mutator."""
    out = []
    roots = ["program_analysis/src", "program_structure/src", "parser/src"]
    for root in roots:
        for f in common.tree_files(os.path.join(common.REPO, root), (".rs",)):
            try:
                text = open(f, encoding="utf-8", errors="replace").read()
            except OSError:
                continue
            for m in re.finditer(r'r#"(.*?)"#', text, re.S):
                s = m.group(1)
                if re.search(r"\b(template|function)\b", s) and len(s) < 8000:
                    out.append(s.encode())
    return sorted(set(out))


def corpus_files():
    out = []
    for root in sorted(os.listdir(os.path.join(common.VERIF, "corpus"))):
        d = os.path.join(common.VERIF, "corpus", root)
        for f in common.tree_files(d, (".circom",)):
            out.append((os.path.relpath(f, common.VERIF), open(f, "rb").read()))
        for f in common.tree_files(d, (".json",)):
            try:
                j = json.load(open(f))
            except Exception:
                continue
            stack = [j]
            k = 0
            while stack:
                x = stack.pop()
                if isinstance(x, dict):
                    stack.extend(x.values())
                elif isinstance(x, list):
                    stack.extend(x)
                elif isinstance(x, str) and re.search(r"\b(template|function|pragma)\b", x) and len(x) < 20000:
                    out.append(("%s#%d" % (os.path.relpath(f, common.VERIF), k), x.encode()))
                    k += 1
    return out


def mutation_cases(ctx, n, seeds, stats):
    rng = ctx.rng
    out = []
    pool = [s for s in seeds]
    for i in range(n):
        base = rng.choice(pool)
        data = mutate(rng, base, pool)
        stats["mutant_bytes"].append(len(data))
        out.append(Case("mutant", {"m.circom": data}, ["m.circom"] + rand_opts(rng)))
    return out


def bytes_cases(ctx, n, stats):
    rng = ctx.rng
    out = []
    alphabet = b"abcxyz0123456789 \n\t(){}[];,=<>-+*/\\%&|^!~?:.\"_$#@'`"
    for i in range(n):
        r = rng.random()
        ln = rng.choice([0, 1, 2, 3, 8, 64, 512, 4096, 65536])
        if r < 0.35:
            data = bytes(rng.randrange(256) for _ in range(ln))
        elif r < 0.6:
            data = bytes(rng.choice(alphabet) for _ in range(ln))
        elif r < 0.8:
            data = b" ".join(rng.choice(DICT) for _ in range(min(ln, 3000)))
        else:
            pieces = [b"\xc3\x28", b"\xa0\xa1", b"\xe2\x28\xa1", b"\xe2\x82\x28", b"\xf0\x28\x8c\xbc", b"\xf0\x90\x28\xbc",
                      b"\xed\xa0\x80", b"\xc0\xaf", b"\xfe", b"\xff\xfe", b"\xef\xbb\xbf", b"\x00", b"\x1b[31m", b"\x7f"]
            data = b"pragma circom 2.0.0;\ntemplate T() { signal input a; log(\"" + b"".join(
                rng.choice(pieces + [b"x"]) for _ in range(rng.randrange(1, 40))) + b"\"); }\n" + rng.choice(pieces)
        stats["bytes_bytes"].append(len(data))
        name = rng.choice(["b.circom", "b.circom", "b.circom", "\xe9.circom", "b c.circom"])
        out.append(Case("bytes", {name: data}, [name] + rand_opts(rng)))
    return out


def F(body, extra=""):
    return "pragma circom 2.0.0;\n%sfunction f(a) { var x = 0; %s return x; }\n" % (extra, body)


def T(body, extra=""):
    return ("pragma circom 2.0.0;\n%stemplate T() { signal input a; signal output b; var x = 0; %s b <== a; }\n"
            % (extra, body))


FLAT_SHAPES = {
    "statements": lambda n: F("".join("x = x + %d; " % i for i in range(n))),
    "signals": lambda n: T("".join("signal s%d; s%d <== a * %d; " % (i, i, i) for i in range(n))),
    "vars-declared": lambda n: F("var " + ", ".join("v%d = %d" % (i, i) for i in range(n)) + ";"),
    "phi-web": lambda n: F("".join("if (a == %d) { x = x + %d; } " % (i, i) for i in range(n))),
    "value-chain": lambda n: F("".join("var c%d = %s + 1; " % (i, "c%d" % (i - 1) if i else "a") for i in range(n)) + "x = c%d;" % (n - 1)),
    "constant-chain": lambda n: F("".join("var c%d = %s * 3 + 1; " % (i, "c%d" % (i - 1) if i else "2") for i in range(n)) + "x = c%d;" % (n - 1)),
}

ANON = "template A() { signal input in; signal output out; out <== in; }\n"

SUGARS = {
    "tuple2": "(0, 1)",
    "tuple-nested": "(a, (a, 1))",
    "tuple-vars": "(x, a)",
    "anon1": "A()(a)",                       # one output: stands for a value
    "anon2": "B()(a)",                       # two outputs: stands for a tuple
    "anon-named": "A()(in <== a)",
    "anon-missing": "Missing()(a)",
    "anon-parallel": "parallel A()(a)",
    "anon-nested": "A()(A()(a))",
}
# %s is the hole. t: template body, f: function body (x, a and the array ar are in scope in both)
SUGAR_HOLES = {
    "read-index": ("x = ar[%s];", "tf"),
    "read-index-operand": ("x = 1 + ar[%s];", "tf"),
    "read-index-nested": ("x = ar[ar[%s]];", "tf"),
    "read-index-2d": ("x = m2[0][%s];", "tf"),
    "read-index-signal": ("b2 <== sa[%s];", "t"),
    "read-index-signal-operand": ("b2 <== 1 + sa[%s] * 2;", "t"),
    "read-index-component": ("b2 <== c.out + cs[%s].out;", "t"),
    "read-index-component-signal": ("b2 <== d.in[%s];", "t"),
    "read-index-in-condition": ("if (ar[%s] == 0) { x = 1; }", "tf"),
    "read-index-in-assert": ("assert(ar[%s] == 0);", "tf"),
    "read-index-in-log": ("log(\"v\", ar[%s]);", "tf"),
    "read-index-in-return": ("return ar[%s];", "f"),
    "read-index-in-call": ("x = g(ar[%s]);", "tf"),
    "read-index-in-dimension": ("var q[ar[%s]];", "tf"),
    "read-index-in-constraint": ("sa[0] === sa[%s];", "t"),
    "read-index-in-lhs-index": ("ar[ar[%s]] = 1;", "tf"),
    "read-index-in-ternary": ("x = a ? ar[%s] : 0;", "tf"),
    "read-index-in-array": ("var w[2] = [ar[%s], 1];", "tf"),
    "read-index-in-tuple": ("(x, _) = (ar[%s], 1);", "t"),
    "read-index-in-anon-input": ("b2 <== A()(sa[%s]);", "t"),
    "read-index-in-anon-param": ("b2 <== P(ar[%s])(a);", "t"),
    "read-index-compound": ("x += ar[%s];", "tf"),
    "lhs-index": ("ar[%s] = 1;", "tf"),
    "lhs-index-signal": ("so[%s] <== a;", "t"),
    "lhs-index-increment": ("ar[%s]++;", "tf"),
    "call-argument": ("x = g(%s);", "tf"),
    "call-argument-2": ("x = h(1, %s);", "tf"),
    "call-argument-nested": ("x = g(g(%s));", "tf"),
    "template-argument": ("component k = P(%s);", "t"),
    "anon-param": ("b2 <== P(%s)(a);", "t"),
    "anon-input": ("b2 <== A()(%s);", "t"),
    "dimension-var": ("var q[%s];", "tf"),
    "dimension-var-2": ("var q[2][%s];", "tf"),
    "dimension-signal": ("signal q[%s];", "t"),
    "dimension-component": ("component q[%s];", "t"),
    "condition-if": ("if (%s) { x = 1; }", "tf"),
    "condition-if-else": ("if (%s) { x = 1; } else { x = 2; }", "tf"),
    "condition-if-operand": ("if (%s == 0) { x = 1; }", "tf"),
    "condition-while": ("while (%s) { x = x + 1; }", "tf"),
    "condition-for": ("for (var i = 0; %s; i++) { x = x + i; }", "tf"),
    "condition-for-operand": ("for (var i = 0; i < %s; i++) { x = x + i; }", "tf"),
    "for-init": ("for (var i = %s; i < 2; i++) { x = x + i; }", "tf"),
    "for-step": ("for (var i = 0; i < 2; i += %s) { x = x + i; }", "tf"),
    "ternary-condition": ("x = %s ? 1 : 2;", "tf"),
    "ternary-branch": ("x = a ? %s : 2;", "tf"),
    "infix-operand": ("x = 1 + %s;", "tf"),
    "prefix-operand": ("x = - %s;", "tf"),
    "inline-array": ("var w[2] = [%s, 1];", "tf"),
    "return": ("return %s;", "f"),
    "assert": ("assert(%s);", "tf"),
    "log": ("log(%s);", "tf"),
    "log-operand": ("log(\"v\", 1 + %s);", "tf"),
    "constraint-lhs": ("%s === a;", "t"),
    "constraint-rhs": ("a === %s;", "t"),
    "var-init": ("var q = %s;", "tf"),
    "assignment": ("x = %s;", "tf"),
    "signal-assignment": ("b2 <== %s;", "t"),
    "signal-assignment-unsafe": ("b2 <-- %s;", "t"),
    "compound-assignment": ("x += %s;", "tf"),
    "tuple-rhs-element": ("(x, _) = (%s, 1);", "t"),
    "statement": ("%s;", "tf"),
}
SUGAR_PRELUDE = ("template A() { signal input in; signal output out; out <== in; }\n"
                 "template B() { signal input in; signal output o1; signal output o2; o1 <== in; o2 <== in; }\n"
                 "template P(n) { signal input in; signal output out; out <== in + n; }\n"
                 "template D() { signal input in[2]; signal output out; out <== in[0] + in[1]; }\n"
                 "function g(u) { return u + 1; }\nfunction h(u, v) { return u + v; }\n")


def sugar_matrix():
    """[(kind, source)]: each sugar form in each hole, in a template and in a function."""
    out = []
    for hname, (hole, where) in SUGAR_HOLES.items():
        for sname, sugar in SUGARS.items():
            stmt = hole % sugar
            if "t" in where:
                body = ("signal input sa[2]; signal output so[2]; signal output b2; var ar[2] = [0, 1]; var m2[2][2]; "
                        "component c = A(); c.in <== a; component cs[2]; cs[0] = A(); cs[1] = A(); cs[0].in <== a; cs[1].in <== a; "
                        "component d = D(); d.in[0] <== a; d.in[1] <== a; " + stmt + " so[0] <== a; so[1] <== a;")
                if "b2 <" not in stmt:
                    body += " b2 <== a;"
                out.append(("sugar:%s:%s:template" % (hname, sname), T(body, SUGAR_PRELUDE)))
            if "f" in where:
                body = "var ar[2] = [0, 1]; var m2[2][2]; " + stmt
                out.append(("sugar:%s:%s:function" % (hname, sname), F(body, SUGAR_PRELUDE)))
    return out

NEST_SHAPES = {
    "parentheses": lambda n: F("x = " + "(" * n + "a" + ")" * n + ";"),
    "parenthesised-sums": lambda n: F("x = " + "(a+" * n + "a" + ")" * n + ";"),
    "blocks": lambda n: F("{" * n + "x = 1;" + "}" * n),
    "if-braced": lambda n: F("if (a == 1) {" * n + "x = 1;" + "}" * n),
    "if-unbraced": lambda n: F("if (a == 1) " * n + "x = 1;"),
    "else-if-chain": lambda n: F("".join("if (a == %d) { x = %d; } else " % (i, i) for i in range(n)) + "{ x = 0; }"),
    "if-else-nested": lambda n: F("if (a == 1) {" * n + "x = 1;" + "} else { x = 2; }" * n),
    "if-else-unbraced": lambda n: F("if (a == 1) " * n + "x = 1; " + "else x = 2; " * n),
    "array-literals": lambda n: F("var y = " + "[" * n + "1" + "]" * n + ";"),
    "ternaries-right": lambda n: F("x = " + "a == 1 ? 1 : (" * n + "0" + ")" * n + ";"),
    "ternaries-cond": lambda n: F("x = " + "(" * n + "a" + " ? 1 : 0)" * n + ";"),
    "operator-chain": lambda n: F("x = " + "a + " * n + "a;"),
    "prefix-chain": lambda n: F("x = " + "-(" * n + "a" + ")" * n + ";"),
    "while-nested": lambda n: F("while (x < 3) {" * n + "x = x + 1;" + "}" * n),
    "for-nested": lambda n: F("".join("for (var i%d = 0; i%d < 2; i%d++) {" % (i, i, i) for i in range(n)) + "x = x + 1;" + "}" * n),
    "calls-nested": lambda n: F("x = " + "f(" * n + "a" + ")" * n + ";"),
    "index-nested": lambda n: F("var y[2] = [0,1]; x = " + "y[" * n + "0" + "]" * n + ";"),
    "anonymous-components-nested": lambda n: T("signal s; s <== " + "A()(" * n + "a" + ")" * n + ";", ANON),
    "tuples-nested": lambda n: T("signal s; s <== " + "(a," * n + "a" + ")" * n + ";"),
    "template-if-else-signals": lambda n: T("if (x == 1) {" * n + "x = 1;" + "} else { x = 2; }" * n),
}


def _tpl(name, uses=()):
    body = "".join("component c%d = %s(); c%d.in <== in; " % (i, u, i) for i, u in enumerate(uses))
    return "template %s() { signal input in; signal output out; %sout <== in + %d; }\n" % (name, body, len(name))


LIB_SPELLINGS = [            # (label, the -L argument(s) for the directory `lib` of the project, links, cwd)
    ("relative", ["lib"], {}, ""),
    ("dot-slash", ["./lib"], {}, ""),
    ("trailing-slash", ["lib/"], {}, ""),
    ("dot-dot", ["work/../lib"], {}, ""),
    ("dir-dot", ["lib/."], {}, ""),
    ("symlink", ["lnk"], {"lnk": "lib"}, ""),
    ("symlink-nested", ["work/lnk2"], {"work/lnk2": "../lib"}, ""),
    ("absolute-canonical", ["{ROOT}/lib"], {}, ""),
    ("absolute-with-dot", ["{ROOT}/./lib"], {}, ""),
    ("absolute-through-symlink", ["{ROOT}/lnk"], {"lnk": "lib"}, ""),
    ("twice", ["lib", "{ROOT}/lib"], {}, ""),
    ("from-subdirectory", ["../lib"], {}, "work"),
]


def linked_directories():
    """[Case]: a directory named on the command line (or given as `-L`) with 0..3 symbolic links in it."""
    t = ("pragma circom 2.0.0;\n" + _tpl("T")).encode()
    u = ("pragma circom 2.0.0;\n" + _tpl("U")).encode()
    base = {"d/t.circom": t, "d/s/u.circom": u, "e/v.circom": ("pragma circom 2.0.0;\n" + _tpl("V")).encode(), "e/f/": b""}
    link_sets = {
        "none": {},
        "self-1": {"d/a": "."},
        "self-2": {"d/a": ".", "d/b": "."},
        "self-3": {"d/a": ".", "d/b": ".", "d/c": "."},
        "parent-1": {"d/s/up": ".."},
        "parent-2": {"d/s/up": "..", "d/s/up2": ".."},
        "self-and-parent": {"d/a": ".", "d/s/up": "..", "d/s/here": "."},
        "root-2": {"d/r1": "..", "d/r2": ".."},                     # to the project root, which holds d and e
        "root-3-deep": {"d/r1": "..", "d/s/r2": "../..", "e/f/r3": "../.."},
        "sibling-cycle": {"d/to_e": "../e", "e/to_d": "../d"},
        "sibling-cycle-2": {"d/to_e": "../e", "d/to_e2": "../e", "e/to_d": "../d", "e/to_d2": "../d"},
        "sibling-and-self": {"d/to_e": "../e", "e/to_d": "../d", "d/a": ".", "e/b": "."},
        "absolute-self": {"d/abs": "{ROOT}/d", "d/abs2": "{ROOT}/d"},
        "dangling-and-file": {"d/gone": "nowhere", "d/l.circom": "t.circom", "d/self": "l.circom"},
        "link-loop": {"d/x": "y", "d/y": "x", "d/a": ".", "d/b": "."},
    }
    out = []
    for lname, links in link_sets.items():
        for aname, argv, cwd in (("dir", ["d"], ""), ("dir-slash", ["d/"], ""), ("two-dirs", ["d", "e"], ""), ("dot", ["."], ""),
                                 ("from-inside", ["."], "d"), ("parent-spelling", ["../d"], "e"), ("absolute", ["{ROOT}/d"], ""),
                                 ("as-library", ["e/v.circom", "-L", "d"], ""), ("file-and-dir", ["d/t.circom", "d"], "")):
            out.append(Case("adversarial:linked-directory:" + lname, dict(base), list(argv), note="named as " + aname,
                            links=dict(links), cwd=cwd))
    return out


def include_projects():
    """[Case]: small projects whose include graph runs through library paths."""
    P = "pragma circom 2.0.0;\n"
    shapes = {
        # name: (files, main file(s) named on the command line, library FILE entries)
        "cycle-2": ({"main.circom": P + 'include "pkgA/adder.circom";\n' + _tpl("Main", ["Adder"]) + "component main = Main();\n",
                     "lib/pkgA/adder.circom": P + 'include "pkgB/doubler.circom";\n' + _tpl("Adder"),
                     "lib/pkgB/doubler.circom": P + 'include "pkgA/adder.circom";\n' + _tpl("Doubler")}, ["main.circom"], []),
        "cycle-2-entered-in-library": ({"lib/pkgA/adder.circom": P + 'include "pkgB/doubler.circom";\n' + _tpl("Adder"),
                                        "lib/pkgB/doubler.circom": P + 'include "pkgA/adder.circom";\n' + _tpl("Doubler")},
                                       ["lib/pkgA/adder.circom"], []),
        "self-include": ({"main.circom": P + 'include "pkgA/x.circom";\n' + _tpl("Main", ["X"]),
                          "lib/pkgA/x.circom": P + 'include "pkgA/x.circom";\n' + _tpl("X")}, ["main.circom"], []),
        "cycle-3": ({"main.circom": P + 'include "a/a.circom";\n' + _tpl("Main", ["A"]),
                     "lib/a/a.circom": P + 'include "b/b.circom";\n' + _tpl("A"),
                     "lib/b/b.circom": P + 'include "c/c.circom";\n' + _tpl("B"),
                     "lib/c/c.circom": P + 'include "a/a.circom";\ninclude "b/b.circom";\n' + _tpl("C")}, ["main.circom"], []),
        "diamond": ({"main.circom": P + 'include "a/a.circom";\ninclude "b/b.circom";\n' + _tpl("Main", ["A", "B"]),
                     "lib/a/a.circom": P + 'include "c/c.circom";\n' + _tpl("A", ["C"]),
                     "lib/b/b.circom": P + 'include "c/c.circom";\n' + _tpl("B", ["C"]),
                     "lib/c/c.circom": P + _tpl("C")}, ["main.circom"], []),
        "repeated-include": ({"main.circom": P + 'include "a/a.circom";\ninclude "a/a.circom";\ninclude "a/../a/a.circom";\n' + _tpl("Main", ["A"]),
                              "lib/a/a.circom": P + _tpl("A")}, ["main.circom"], []),
        "local-and-library-cycle": ({"main.circom": P + 'include "a/a.circom";\n' + _tpl("Main", ["A"]),
                                     "lib/a/a.circom": P + 'include "a2.circom";\n' + _tpl("A"),
                                     "lib/a/a2.circom": P + 'include "a/a.circom";\ninclude "a.circom";\n' + _tpl("A2")},
                                    ["main.circom"], []),
        "library-file-cycle": ({"main.circom": P + 'include "x.circom";\n' + _tpl("Main", ["X"]),
                                "lib/x.circom": P + 'include "main.circom";\ninclude "x.circom";\n' + _tpl("X")},
                               ["main.circom"], ["x.circom", "../main.circom"]),
        "two-inputs-share-library": ({"main.circom": P + 'include "a/a.circom";\n' + _tpl("Main", ["A"]),
                                      "second.circom": P + 'include "a/a.circom";\ninclude "main.circom";\n' + _tpl("Second", ["A"]),
                                      "lib/a/a.circom": P + 'include "a/a.circom";\n' + _tpl("A")},
                                     ["main.circom", "second.circom"], []),
    }
    out = []
    for sname, (files, mains, libfiles) in shapes.items():
        for label, largs, links, cwd in LIB_SPELLINGS:
            up = "../" if cwd else ""
            argv = [up + m for m in mains]
            for la in largs:
                if libfiles:            # the library entries are FILES below the directory spelled `la`
                    for lf in libfiles:
                        argv += ["-L", la.rstrip("/") + "/" + lf]
                else:
                    argv += ["-L", la]
            fs = {k: v.encode() for k, v in files.items()}
            fs["work/"] = b""
            out.append(Case("adversarial:include-project:" + sname, fs, argv, note="library spelled " + label,
                            links=dict(links), cwd=cwd))
    return out


def adversarial_cases(ctx, stats, thorough):
    rng = ctx.rng
    out = []

    def add(kind, src, argv=None, depth=None, files=None, note=""):
        fs = dict(files or {})
        if src is not None:
            fs["t.circom"] = src if isinstance(src, bytes) else src.encode("utf-8")
        out.append(Case("adversarial:" + kind, fs, (argv if argv is not None else ["t.circom"]), depth, note))

    for name, fn in NEST_SHAPES.items():
        n64 = max(n for n in range(1, 65) if nesting_depth(fn(n).encode()) <= MODEST_DEPTH)
        for n in sorted({16, n64, 64, 256} | ({32, 48, 96, 128, 192, 384, 512, 1024, 4096} if thorough else set())):
            add("nest:%s" % name, fn(n), depth=n)
            add("nest:%s" % name, fn(n), ["t.circom", "--curve", rng.choice(CURVES), "--level", "INFO"], depth=n)
    # regression of fix 7224234 (VariableUse clone blow-up): 6..30 nested if/else
    for n in ([6, 8, 10, 12, 16, 20, 24, 30]):
        src = "function f(x) { " + "".join("if (x == %d) " % i for i in range(n, 0, -1)) + "x = x + 1; " + \
              "".join("else x = x + %d; " % (100 + i) for i in range(n)) + "return x; }"
        add("nested-if-else-%d" % n, src, depth=n)
    # literals
    for digits in (10 ** 3, 10 ** 4, 10 ** 5):
        add("dec-literal-%d" % digits, F("x = " + "7" * digits + ";"))
        add("hex-literal-%d" % digits, F("x = 0x" + "f" * digits + ";"))
        add("dec-literal-zeros-%d" % digits, F("x = " + "0" * digits + "1;"))
    for src in ("return 0x;", "x = 0x;", "x = 0xg;", "x = 0X1;", "x = 1e5;", "x = 00;", "x = 0x0;", "x = 1_000;",
                "x = 5 % 0;", "x = 5 / 0;", "x = 5 \\ 0;", "x = 1 << 100000000000;", "x = 1 >> 100000000000;",
                "x = 1 >> 18446744073709551616;", "x = 1 << 18446744073709551616;", "x = 1 >> 18446744073709551615;",
                "x = a >> 340282366920938463463374607431768211456;", "x = 7 << 9223372036854775808;",
                "x = 2 ** 21888242871839275222246405745257275088548364400416034343698204186575808495616;",
                "x = 0 ** 0;", "x = -1 >> 1;", "x = ~0;", "x = !0;", "x = 1 << 253; x = x << 1; x = x >> 254;",
                "x = 21888242871839275222246405745257275088548364400416034343698204186575808495617;",
                "x = 1 / 21888242871839275222246405745257275088548364400416034343698204186575808495617;",
                "x = 5 % 18446744069414584321;", "x = 7 \\ 52435875175126190479447740508185965837690552500527637822603658699938581184513;"):
        for c in CURVES:
            add("arith", F(src), ["t.circom", "--curve", c])
    # operators whose cost could depend on the VALUE of an operand rather than on its size
    # (constant folding in value propagation is not interruptible: the 10 s time box is
    # polled between passes only), and loops / dimensions with huge constant bounds, which
    # a static analyser must not iterate or allocate
    PR = {"BN254": 21888242871839275222246405745257275088548364400416034343698204186575808495617,
          "BLS12_381": 52435875175126190479447740508185965837690552500527637822603658699938581184513,
          "GOLDILOCKS": 18446744069414584321}
    big200 = (1 << 199) + 12345678901234567890123456789
    for c in CURVES:
        pm1 = PR[c] - 1
        exps = [1 << 20, 10 ** 7, (1 << 31) - 1, 1 << 31, 4000000000, (1 << 32) - 1, 1 << 32, 10 ** 12, pm1]
        for base in (2, 3, pm1, big200):
            for e in exps:
                add("value-cost:pow", F("x = %d ** %d;" % (base, e)), ["t.circom", "--curve", c])
        for e in exps:
            add("value-cost:pow-var", F("var e = %d; var r = 3 ** e; x = r + a;" % e), ["t.circom", "--curve", c])
            add("value-cost:pow-template", T("var e = %d; var r = 2 ** e; b <== a * r;" % e).replace(" b <== a; }", " }"),
                ["t.circom", "--curve", c])
            add("value-cost:pow-assign-op", F("x = 3; x **= %d;" % e), ["t.circom", "--curve", c])
        for src in ("x = (3 ** 65536) ** 65536;", "x = 2 ** 3 ** 4000000;", "x = 3 ** 4000000000 ** 2;",
                    "x = (2 ** 4000000000) + (3 ** 4000000000);", "log(3 ** 4000000000);", "assert(3 ** 4000000000 == 1);",
                    "x = a ** 4000000000;", "x = 3 ** a;", "x = 0 ** 4000000000;", "x = 1 ** 4000000000;",
                    "x = (0 - 1) ** 4000000001;", "var y[3 ** 4000000000];", "x = 5 ? 3 ** 4000000000 : 2;"):
            add("value-cost:pow-forms", F(src), ["t.circom", "--curve", c])
        counts = [1 << 20, 10 ** 7, (1 << 31) - 1, 1 << 31, 4000000000, (1 << 32) - 1, 1 << 32, 1 << 40, (1 << 63) - 1,
                  1 << 63, (1 << 64) - 1, pm1 // 2, pm1 // 2 + 1, pm1 - 5, pm1]
        for k in counts:
            add("value-cost:shift", F("x = 1 << %d; x = %d >> %d; x = %d << %d; var s = %d; x = 3 << s; x = x >> s;"
                                      % (k, pm1, k, big200, k, k)), ["t.circom", "--curve", c])
        for src in ("x = %d \\ 3; x = %d %% 2; x = ~%d; x = %d \\ %d; x = %d %% %d;" % (pm1, pm1, pm1, big200, pm1, big200, pm1),
                    "x = ~0; x = ~(~1); x = !%d; x = -%d;" % (pm1, pm1),
                    "x = %d * %d; x = %d / %d; x = 1 / %d;" % (pm1, pm1, pm1, big200, big200),
                    "x = %d & %d; x = %d | %d; x = %d ^ %d;" % (pm1, big200, pm1, big200, pm1, big200)):
            add("value-cost:other-operators", F(src), ["t.circom", "--curve", c])
    for src in ("for (var i = 0; i < 4000000000; i++) { x += i; }",
                "for (var i = 0; i < 4000000000; i++) { for (var j = 0; j < 4000000000; j++) { x += i * j; } }",
                "for (var i = 4000000000; i > 0; i--) { x = x * 3; }",
                "while (x < 4000000000) { x = x * 2 + 1; }", "while (1) { x = 3 ** x; }",
                "var y[4000000000]; y[3999999999] = 1; x = y[0];", "var y[1 << 40]; x = y[1 << 39];",
                "var y[2][4000000000]; x = y[1][7];", "var y[2] = [1, 2]; x = y[4000000000];"):
        add("value-cost:huge-bounds", F(src))
    for src in ("signal s[4000000000]; for (var i = 0; i < 4000000000; i++) { s[i] <== a * i; }",
                "signal s[1 << 40]; s[0] <== a;", "component c[4000000000]; for (var i = 0; i < 4000000000; i++) { c[i] = A(); c[i].in <== a; }",
                "signal s[2 ** 4000000000]; s[0] <== a;", "var n = 4000000000; signal s[n]; s[n - 1] <== a;"):
        add("value-cost:huge-bounds-template", T(src, ANON))
    add("value-cost:main-args", "template M(n) { signal input a[n]; signal output b; var s = 0; for (var i = 0; i < n; i++) { s += a[i]; } b <== s; }\n"
        "component main = M(4000000000);\n")
    add("value-cost:main-args", "template M(n) { signal output b; b <== 3 ** n; }\ncomponent main = M(4000000000);\n")
    # log strings around the 230-byte split
    for pre in range(224, 234):
        for ch in ("é", "€", "\U0001F600"):
            add("log-string", T('log("%s%s");' % ("x" * pre, ch * 100)))
    add("log-string", T('log("x%s");' % ("é" * 125)), note="D26 witness")
    add("log-string", T('log("%s", a, "%s");' % ("é" * 150, "€" * 100)))
    add("log-string", T('log("%s");' % ("\U0001F600" * 75)))
    add("log-string-10k", T('log("%s");' % ("é€x" * 3000)))
    add("log-unclosed", T('log("abc);'))
    add("log-empty", T('log(); log(""); log("", "");'))
    # pragmas
    add("pragma-huge-number", "pragma circom 99999999999999999999999.0.0;\n", note="D2 witness")
    add("pragma-huge-number", "pragma circom 2.%s.0;\n" % ("9" * 1000))
    add("pragma-huge-number", "pragma circom %s.%s.%s;\n" % ("1" * 10 ** 4, "2" * 10 ** 4, "3" * 10 ** 4))
    add("pragma-usize-max", "pragma circom 18446744073709551615.18446744073709551615.18446744073709551615;\n")
    add("pragma-usize-max+1", "pragma circom 18446744073709551616.0.0;\n")
    add("pragma-forms", "pragma circom 2.0;\n")
    add("pragma-forms", "pragma circom 2.0.0.0;\n")
    add("pragma-forms", "pragma  circom 2.0.0;\n")
    add("pragma-forms", "pragma circom 02.00.000;\ntemplate T() {}\n")
    add("pragma-forms", "pragma circom 2.0.0;\n" * 1000)
    add("pragma-forms", "pragma custom_templates;\npragma circom 2.0.0;\n")
    add("pragma-forms", "pragma circom 2.0.0;\npragma custom_templates;\ntemplate custom C() { signal input a; }\n")
    add("pragma-forms", "pragma " + "x" * 60000 + ";\n")
    # many definitions / statements / names
    for n in (10 ** 2, 10 ** 3) + ((10 ** 4,) if thorough else ()):
        add("definitions-%d" % n, "pragma circom 2.0.0;\n" + "".join("function f%d(a) { return a + %d; }\n" % (i, i) for i in range(n)))
    add("definitions-10000-templates" if thorough else "definitions-2000-templates",
        "pragma circom 2.0.0;\n" + "".join("template T%d() { signal input a; signal output b; b <== a; }\n" % i
                                            for i in range(10 ** 4 if thorough else 2000)),
        note="10^4 definitions in the thorough tier (300 kB, beyond `modest size`)")
    # fourth audit: definitions of several hundred statements in the quick tier too (sizes chosen so that the unchanged
    # debug build needs 2 - 8 s alone: the machine is shared and 16 runs side by side cost a factor 3 - 4; the size 500 is in the thorough tier; 1000 is NOT run: the unchanged tool does not end within the 300 s watchdog on 1000 sequential `if`s in the debug build - stated in the known finding C01-long-definition-time - so the case could only ever be red); every `flat:` case runs with the debug log of cfg.rs on (run()), so that boxed
    # and unboxed time are known for each of them, time-out or not
    QUICK_LONG = {"statements": 300, "signals": 250, "vars-declared": 500, "phi-web": 100, "value-chain": 500, "constant-chain": 250}
    for name, fn in FLAT_SHAPES.items():
        for n in ((60, 120, QUICK_LONG[name]) if not thorough else (60, 120, 250, 500)):
            add("flat:%s-%d" % (name, n), fn(n))
    add("params-1000", "template T(%s) { }\ncomponent main = T(%s);\n" % (", ".join("p%d" % i for i in range(1000)),
                                                                              ", ".join("1" for _ in range(1000))))
    add("dims-200", F("var y" + "[2]" * 200 + ";"))
    add("access-chain-1000", T("x = a" + ".b" * 1000 + ";"))
    add("long-identifier", F("var %s = 1;" % ("v" * 60000)))
    add("long-line-comment", "//" + "é" * 30000 + "\ntemplate T() {}\n")
    add("many-comments", "/**/" * 10000 + "template T() {}\n")
    add("unclosed-comment", "template T() {}\n/* é")
    add("crlf", T("x = 1;").replace("\n", "\r\n"))
    add("empty-file", "")
    add("whitespace-only", " \n\t\r\n")
    add("bom", b"\xef\xbb\xbf" + T("x = 1;").encode())
    add("nul-bytes", b"pragma circom 2.0.0;\x00\ntemplate T() {}\n")
    add("invalid-utf8", b"pragma circom 2.0.0;\ntemplate T() { log(\"\xff\xfe\"); }\n")
    add("latin1", "template T() { /* caf\xe9 */ }".encode("latin-1"))
    add("loops", F("while (1) { x = x + 1; } for (var i = 0; i < 10; i--) { x += i; }"))
    add("loop-phi-web", F("for (var i = 0; i < 10; i++) { " + "".join("if (a == %d) { x = x + i; } " % i for i in range(60)) + "}"))
    add("main-forms", "template T() { signal input a; }\ncomponent main {public [a]} = T();\ncomponent main = T();\n")
    add("main-forms", "component main = 1 + 2;\n")
    add("main-forms", "component main {public [a, a, a]} = Missing(1, 2)(3);\n")
    # defects repaired earlier stay repaired (witnesses of D5..D8, D20)
    add("D5", T("if (x == 0) { b <== 1; } else { b <== 2; }"))
    add("D6", T("assert((a,a));"))
    add("D7", "function f(){ 1 = 2; return 0; }\n")
    add("D8", T("signal arr[2]; arr[A()(a)] <== a;", ANON))
    add("tuple-forms", T("signal (p, q) <== (a, a); (p, _) <== (a, a); var (u, v) = (1, 2); (u, v) = (v, u);"))
    add("tuple-forms", T("(a, (a, a)) <== ((1, 2), 3); _ <== a; _ = 1;"))
    add("anon-forms", T("signal s; s <== A()(in <== a); s <== A()(in <-- a); A()(a); A()(); A(1)(a, a);", ANON))
    add("anon-forms", T("for (var i = 0; i < 2; i++) { A()(a); }", ANON))
    add("anon-forms", "function g() { A()(1); return A()(2); }\n" + ANON)
    # every kind of sugar in every expression position (the desugarer must answer each with an error
    # report or remove it; whatever it lets through meets the catch-all panic!s of IR lifting).
    # Added after the seeded change C01-variable-index-not-searched: read indices, call arguments,
    # dimensions and conditions are exercised deliberately, in templates and in functions.
    for kind, src in sugar_matrix():
        add(kind, src)
    add("component-forms", T("component c = A(); c.in <== a; component d[2]; d[0] = A(); d[1] = parallel A(); d[0].in <== c.out; d[1].in <== d[0].out;", ANON))
    # files, options
    good = T("x = 1;").encode()
    add("missing-file", None, ["nosuch.circom"])
    add("missing-file", None, ["nosuch.circom", "also/missing.circom", "--sarif-file", "o.sarif"])
    add("directory-argument", None, ["dir"], files={"dir/": b"", "dir/x.circom": good})
    add("directory-argument", None, ["."], files={"x.circom": good, "y.txt": b"junk"})
    add("not-circom-suffix", None, ["x.txt"], files={"x.txt": good})
    add("same-file-twice", None, ["x.circom", "x.circom", "./x.circom"], files={"x.circom": good})
    add("many-files", None, ["f%d.circom" % i for i in range(60)],
        files={"f%d.circom" % i: T("x = %d;" % i).replace("T()", "T%d()" % i).encode() for i in range(60)})
    # fourth audit: projects with more than 64 and more than 256 files, named, in a named directory, included from one
    # file (fan) and in a chain (a per-file bit mask, a fixed-size table or a cap on the number of files shows from
    # file 65 / 257 on)
    def small(i):
        return T("x = %d;" % i).replace("T()", "T%d()" % i).encode()

    def with_includes(incs, src):
        head, rest = src.split("\n", 1)         # the pragma stays first
        return (head + "\n" + incs + rest).encode()
    for n in (70, 300):
        add("many-files-%d" % n, None, ["f%d.circom" % i for i in range(n)], files={"f%d.circom" % i: small(i) for i in range(n)})
        add("many-files-%d-directory" % n, None, ["p"], files={"p/f%d.circom" % i: small(i) for i in range(n)})
        add("include-fan-%d" % n, None, ["m.circom", "--level", "INFO"],
            files=dict({"m.circom": with_includes("".join('include "f%d.circom";\n' % i for i in range(n)), T("x = 0;"))},
                       **{"f%d.circom" % i: small(i) for i in range(n)}))
        add("include-chain-%d" % n, None, ["i0.circom"],
            files={"i%d.circom" % i: with_includes('include "i%d.circom";\n' % (i + 1) if i < n - 1 else "",
                                                    T("x = %d;" % i).replace("T()", "T%d()" % i)) for i in range(n)})
        add("include-fan-%d-library" % n, None, ["m.circom", "-L", "lib"],
            files=dict({"m.circom": with_includes("".join('include "g/f%d.circom";\n' % i for i in range(n)), T("x = 0;"))},
                       **{"lib/g/f%d.circom" % i: small(i) for i in range(n)}))
    add("include-self", None, ["x.circom"], files={"x.circom": b'include "x.circom";\n' + good})
    add("include-cycle", None, ["x.circom"], files={"x.circom": b'include "y.circom";\n' + good,
                                                    "y.circom": b'include "x.circom";\n'})
    add("include-missing", None, ["x.circom"], files={"x.circom": b'include "nosuch.circom";\n' + good})
    add("include-directory", None, ["x.circom"], files={"x.circom": b'include "sub";\n' + good, "sub/": b""})
    add("include-chain-60", None, ["i0.circom"],
        files={"i%d.circom" % i: ('include "i%d.circom";\nfunction g%d() { return %d; }\n' % (i + 1, i, i)).encode()
               if i < 59 else b"function last() { return 1; }\n" for i in range(60)})
    add("include-odd-paths", None, ["x.circom"],
        files={"x.circom": b'include "";\ninclude "/";\ninclude "../../../../etc/passwd";\ninclude "x.circom/..";\n' + good})
    add("library-missing", None, ["x.circom", "-L", "nosuchdir"], files={"x.circom": good})
    add("sarif-unwritable", None, ["x.circom", "--sarif-file", "nosuchdir/out.sarif", "--level", "INFO"],
        files={"x.circom": T("b <-- a;").encode()})
    add("sarif-is-directory", None, ["x.circom", "--sarif-file", ".", "--level", "INFO"], files={"x.circom": T("b <-- a;").encode()})
    rich = T("signal s; s <-- a * a; var unused = a; if (x == 0) { x = 1; } signal t; t <-- a / 3; component n = Num2Bits(254); "
             "n.in <== a; component l = LessThan(300); l.in[0] <== a; l.in[1] <== a;",
             "template Num2Bits(n) { signal input in; signal output out[n]; }\n"
             "template LessThan(n) { signal input in[2]; signal output out; out <-- in[0] < in[1]; }\n")
    for c in CURVES:
        for lv in LEVELS:
            for extra in ([], ["--verbose"], ["--sarif-file", "o.sarif"], ["--allow", "CS0005", "-a", "CS0013"]):
                add("option-matrix", rich, ["t.circom", "--curve", c, "--level", lv] + extra)
    # third audit, follow-up (seeded change C01-library-cycle-uncanonical): multi-file projects whose includes are
    # resolved through `-L` directories and `-L` files - cycles, self-includes, diamonds, a cycle that mixes local and
    # library resolution - with the library given in every spelling: relative, `./`-prefixed, trailing slash, through
    # `..`, through a symlink, `dir/.`, absolute canonical, absolute with a `.` in it, twice in two spellings, and
    # relative to a working directory below the project.  All of them are a few hundred bytes and nest three levels: a
    # time-out or a memory blow-up falls into no known class and is reported with the project as input.
    for c in include_projects():
        out.append(c)
    # fourth audit (reviewer A, section 0; fixed in /repo 517e7a0): NAMED DIRECTORIES that contain symbolic links to
    # themselves, to an ancestor, to a sibling, and link cycles between directories.  Before the fix two links to `.`
    # made the directory walk of FileStack::add_files exponential in the kernel's limit of 40 links: a 92-byte project
    # that never ended.  (C19's generator allowed one self-link per directory at most for that very reason.)
    for c in linked_directories():
        out.append(c)
    # third audit: one name defined twice - every pairing of template / function (a clash BETWEEN the two kinds
    # included: the merger keeps two maps and labels the earlier definition by looking the name up), in one file,
    # in two files of the command line (both orders), in an included file, in a library directory, with and
    # without a main component (program mode / library mode), with one, two and three definitions of the name
    DEFS = {"template": "template %s() { signal input a; signal output b; b <== a; }\n",
            "template-p": "template %s(n) { signal input a[n]; signal output b; b <-- a[0]; }\n",
            "function": "function %s(u) { return u + 1; }\n",
            "function-0": "function %s() { return 1; }\n"}
    MAINS = {"none": "", "other": "template M() { signal input a; signal output b; b <== a; }\ncomponent main = M();\n",
             "clash": "component main = N();\n"}
    for k1 in DEFS:
        for k2 in DEFS:
            d1, d2 = DEFS[k1] % "N", DEFS[k2] % "N"
            for mname, main in MAINS.items():
                tag = "name-clash:%s/%s:main-%s" % (k1, k2, mname)
                add(tag + ":one-file", "pragma circom 2.0.0;\n" + d1 + d2 + main)
                add(tag + ":two-files", None, ["x.circom", "y.circom"],
                    files={"x.circom": (d1 + main).encode(), "y.circom": d2.encode()})
                add(tag + ":two-files-reversed", None, ["y.circom", "x.circom"],
                    files={"x.circom": (d1 + main).encode(), "y.circom": d2.encode()})
                add(tag + ":included", None, ["x.circom"],
                    files={"x.circom": ('include "y.circom";\n' + d1 + main).encode(), "y.circom": d2.encode()})
                add(tag + ":included-first-wins", None, ["x.circom"],
                    files={"x.circom": ('include "y.circom";\n' + main + d1).encode(),
                           "y.circom": ('include "z.circom";\n' + d2).encode(), "z.circom": (DEFS[k1] % "N").encode()})
                add(tag + ":library", None, ["x.circom", "-L", "lib"],
                    files={"x.circom": ('include "l.circom";\n' + d1 + main).encode(), "lib/l.circom": d2.encode()})
    for c in CURVES:
        add("option-matrix-dup-defs", None, ["a.circom", "b.circom", "--curve", c],
            files={"a.circom": rich.encode(), "b.circom": rich.encode()})
    stats["adversarial_kinds"] = sorted(set(c.kind for c in out))
    return out


# --------------------------------------------------------------------------
# shrinking (delta debugging on lines, then tokens, then bytes)
# --------------------------------------------------------------------------

def ddmin(units, test, budget):
    n = 2
    while len(units) >= 2 and budget[0] > 0:
        size = max(1, len(units) // n)
        chunks = [units[i:i + size] for i in range(0, len(units), size)]
        reduced = False
        for i in range(len(chunks)):
            if budget[0] <= 0:
                break
            cand = [u for j, c in enumerate(chunks) if j != i for u in c]
            budget[0] -= 1
            if test(cand):
                units = cand
                n = max(n - 1, 2)
                reduced = True
                break
        if not reduced:
            if size == 1:
                break
            n = min(len(units), n * 2)
    return units


def shrink(binary, case, sig, root, budget=250):
    """Minimises the largest file of the case while the failure signature stays."""
    if not case.files:
        return case
    name = max((k for k in case.files if not k.endswith("/")), key=lambda k: len(case.files[k]), default=None)
    if name is None:
        return case
    left = [budget]
    counter = [0]

    def still(data):
        counter[0] += 1
        files = dict(case.files)
        files[name] = data
        r = run_case(binary, Case(case.kind, files, case.argv, links=case.links, cwd=case.cwd), root, "shrink")
        return bool(judge(r)) and signature(r) == sig

    data = case.files[name]
    lines = data.split(b"\n")
    if len(lines) > 1:
        lines = ddmin(lines, lambda u: still(b"\n".join(u)), left)
        data = b"\n".join(lines)
    toks = [m.group(0) for m in TOK.finditer(data)]
    if 1 < len(toks) <= 200000:
        toks = ddmin(toks, lambda u: still(b"".join(u)), left)
        data = b"".join(toks)
    if len(data) <= 400:
        bs = [bytes([b]) for b in data]
        bs = ddmin(bs, lambda u: still(b"".join(u)), left)
        data = b"".join(bs)
    files = dict(case.files)
    files[name] = data
    # drop option arguments that are not needed
    argv = list(case.argv)
    return Case(case.kind, files, argv, case.depth, case.note + " (shrunk from %d bytes in %d runs)" % (len(case.files[name]), counter[0]),
                case.links, case.cwd)


# --------------------------------------------------------------------------
# known findings
# --------------------------------------------------------------------------

def longest_definition(data):
    """Largest number of `;` inside one top-level `{ ... }` of the text."""
    best = cur = depth = 0
    for m in TOK.finditer(strip_comments(data)):
        t = m.group(0)
        if t == b"{":
            depth += 1
        elif t == b"}":
            depth = max(0, depth - 1)
            if depth == 0:
                best, cur = max(best, cur), 0
        elif t == b";" and depth > 0:
            cur += 1
    return max(best, cur)


LONG_DEFINITION = 128


LONG_WATCHDOG_S = 300
# the tool's own time box: MAX_ANALYSIS_DURATION of control_flow_graph/cfg.rs, as recorded when the known finding
# C01-long-definition-time was written.  The current value is read from the source on every run
# (panicsites.time_box()); a different value is reported.
RECORDED_BOX_S = 10.0
RECORDED_BOX_USES = 2
# a phase ends at the first poll of the box after it expired; polls are one pass apart (milliseconds for the
# definitions the engine feeds, measured 10.0 - 10.2 s per boxed phase on the witness); the slack absorbs load
BOX_SLACK_S = 10.0


def classify_cheap(ctx, case, res):
    """-> a known-finding record, the string "needs-long-run", or None.
    The recorded classes are narrow and syntactic:
    C01-stack-depth (D25): killed by the stack guard (SIGABRT/SIGSEGV with the
      runtime's `has overflowed its stack` message) AND the input nests deeper
      than MODEST_DEPTH syntax-tree levels by the estimate;
    C01-deep-nesting-resources: time-out, or allocation failure under the
      address-space limit, AND nesting estimate > MODEST_DEPTH;
    C01-long-definition-time: time-out AND a definition with more than
      LONG_DEFINITION statements AND the run does end on its own with status
      0/1 and a summary line under the long watchdog (checked by a re-run) AND,
      third audit, in that re-run (the tool's own debug log of cfg.rs switched on,
      every line stamped) NO SINGLE value- or degree-propagation phase of a
      definition lasts longer than the tool's time box (RECORDED_BOX_S) plus
      BOX_SLACK_S.  The mechanism the class names is "many definitions / phases,
      each cut by its 10 s box, plus the unboxed passes"; a single propagation that
      outlives its box is a failure of the box and NOT in the class.  Fourth audit: AND the
      time outside the boxed phases (wall - sum of boxed phases) stays within
      max(20 s, unboxed_bound(input)), a cost model calibrated on the unchanged tool."""
    ids = {k["id"]: k for k in ctx.known}
    deepest = max([nesting_depth(v) for v in case.files.values()] + [0])
    if res.get("panic") == "stack overflow" and res.get("rc") in (-6, -11) and deepest > MODEST_DEPTH:
        return ids.get("C01-stack-depth")
    structural = max([nesting_depth(v, operators=False) for v in case.files.values()] + [0])
    if (res.get("timed_out") or res.get("panic") == "memory allocation failed") and structural > MODEST_DEPTH:
        return ids.get("C01-deep-nesting-resources")
    if res.get("timed_out") and "C01-long-definition-time" in ids \
            and max([longest_definition(v) for v in case.files.values()] + [0]) > LONG_DEFINITION:
        return "needs-long-run"
    return None


def classify_known(ctx, case, res, binary=None, root=None):
    k = classify_cheap(ctx, case, res)
    if k == "needs-long-run":
        r = run_case(binary, case, root, "long-%d" % (id(case) % 100000), watchdog=LONG_WATCHDOG_S, trace=True)
        phases = sorted(r.get("phases") or [], key=lambda p: -p["seconds"])
        over = [p for p in phases if p["seconds"] > RECORDED_BOX_S + BOX_SLACK_S]
        res["rerun_long_watchdog"] = {"rc": r["rc"], "wall": r["wall"], "last_line": r["last_line"], "timed_out": r["timed_out"],
                                      "boxed_phases": len(phases), "longest_phases": phases[:3],
                                      "phases_beyond_box_plus_slack": over[:3],
                                      "phases_in_which_the_box_fired": sum(1 for p in phases if p["box_fired"])}
        PHASE_STATS["long_reruns"] += 1
        PHASE_STATS["boxed_phases_timed"] += len(phases)
        PHASE_STATS["box_fired"] += sum(1 for p in phases if p["box_fired"])
        PHASE_STATS["longest_phase_s"] = max([PHASE_STATS["longest_phase_s"]] + [p["seconds"] for p in phases])
        if over:
            PHASE_STATS["phases_beyond_box_plus_slack"] += len(over)
            return None
        ub, us = unboxed_bound(case), unboxed_seconds(r)
        res["rerun_long_watchdog"].update({"unboxed_seconds": us, "unboxed_cost_model_bound": ub})
        if not r["timed_out"] and us > max(ub, WATCHDOG_S):
            # the boxed phases do not explain the wall time and the rest is slower than the calibrated cost model
            PHASE_STATS["unboxed_beyond_cost_model"] += 1
            res["rerun_long_watchdog"]["unboxed_beyond_cost_model"] = True
            return None
        return None if judge(r) else {k2["id"]: k2 for k2 in ctx.known}["C01-long-definition-time"]
    return k


def unboxed_bound(case):
    """Fourth audit: what the UNBOXED phases of a run (everything but value / degree propagation: parsing, lifting,
    dominators, SSA, variable-use caching, the 13 passes, output) may take, from a cost model calibrated on the
    unchanged tool (debug build, alone; measured 2026-09: 250 / 500 sequential `if`s 44 / 172 s, 250 / 500 signals
    with constraints 6.3 / 22.9 s, 2000 assignments 8.6 s - all quadratic): 5 s + 3 x (7e-4 b^2 + 1e-4 g^2 + 2.5e-6 n^2),
    b = branching keywords of the input, g = signal / component keywords, n = statements of the longest definition.
    The factor 3 absorbs load; a slow-down of these phases beyond it is NOT a known finding."""
    b = g = 0
    for v in case.files.values():
        toks = [m.group(0) for m in TOK.finditer(strip_comments(v))]
        b += sum(1 for t in toks if t in (b"if", b"while", b"for", b"?"))
        g += sum(1 for t in toks if t in (b"signal", b"component"))
    n = max([longest_definition(v) for v in case.files.values()] + [0])
    return round(load_factor() * (5.0 + 3.0 * (7e-4 * b * b + 1e-4 * g * g + 2.5e-6 * n * n)), 1)


def load_factor():
    """The machine is shared: the bound is scaled by the 1-minute load average per core when that exceeds 1 (recorded
    in the evidence as time_box.load_factor_max; on an idle machine the factor is 1 and the bound is the calibrated one)."""
    try:
        f = max(1.0, os.getloadavg()[0] / (os.cpu_count() or 1))
    except OSError:
        f = 1.0
    PHASE_STATS["load_factor_max"] = round(max(PHASE_STATS.get("load_factor_max", 1.0), f), 2)
    return f


def unboxed_seconds(res):
    return round(res["wall"] - sum(p["seconds"] for p in (res.get("phases") or [])), 2)


PHASE_STATS = {"long_reruns": 0, "unboxed_beyond_cost_model": 0, "boxed_phases_timed": 0, "box_fired": 0, "longest_phase_s": 0.0, "phases_beyond_box_plus_slack": 0}


# --------------------------------------------------------------------------
# the engine
# --------------------------------------------------------------------------

def run_all(binary, cases, root, workers):
    def one(i):
        return run_case(binary, cases[i], root, i, trace=cases[i].kind.startswith("adversarial:flat:"))
    with concurrent.futures.ThreadPoolExecutor(max_workers=workers) as ex:
        return list(ex.map(one, range(len(cases))))


def ready_properties():
    try:
        return set(open(os.path.join(common.VERIF, "manifest.d", "ready.txt")).read().split())
    except OSError:
        return set()


def cites_verdict(ctx, unresolved, unchecked, ready):
    """What follows from compiling coq/gen/PanicCites<Cnn>.v.  `unresolved`: a cited name is gone -> violation.
    `unchecked`: a file of the cited property does not build, so Coq did not re-check the citation.  Second audit:
    when that property is claimed ready (manifest.d/ready.txt) this is a VIOLATION (no failing input) - the theorems
    it contributes discharge panic sites of the map; only for a property that is not claimed ready it is logged and
    recorded in the evidence (citations_not_checked_dependency_broken)."""
    for prop, out in unchecked:
        common.log("panic-site inventory: citations of %s not re-checked by Coq, a file of %s does not build now: %s"
                   % (prop, prop, " ".join(out.split())[-300:]))
        if prop in ready:
            ctx.violation("the theorems of %s that coq/PANIC_MAP.json cites could not be re-checked: %s is claimed ready "
                          "(manifest.d/ready.txt) but a file of its cone does not build" % (prop, prop),
                          {"broken": "gen/PanicCites%s.v (a dependency does not build)" % prop,
                           "coq_output": out[-1200:]}, no_input=True)
    if unresolved:
        common.log("panic-site inventory: a cited theorem does not resolve:\n" + unresolved[0][1][-600:])
        if not ctx.violations:
            ctx.violation("a theorem of %s cited by coq/PANIC_MAP.json does not resolve in Coq (coq/gen/PanicCites%s.v "
                          "does not compile)" % (unresolved[0][0], unresolved[0][0]),
                          {"broken": "gen/PanicCites%s.v" % unresolved[0][0], "coq_output": unresolved[0][1],
                           "inventory_diff": panicsites.unmapped_summary()}, no_input=True)


def run(ctx, proofs):
    thorough = ctx.tier == "thorough"
    debug_bin = common.build_cli()
    binaries = [("debug", debug_bin)]
    if thorough:
        binaries.append(("release", build_cli_release()))
    root = os.path.join(ctx.work, "run")
    shutil.rmtree(root, ignore_errors=True)
    os.makedirs(root, exist_ok=True)

    counts = collections.Counter()
    stats = collections.defaultdict(list)
    seeds = [d for _, d in corpus_files()] + repo_snippets()
    n_grammar, n_mut, n_bytes = (900, 500, 150) if not thorough else (42000, 36000, 10000)
    cases = []
    # corpus first: every witness of a past failure
    for name, data in corpus_files():
        if name.startswith("corpus/C01/"):
            for c in CURVES:
                cases.append(Case("corpus:" + name, {"w.circom": data}, ["w.circom", "--curve", c, "--level", "INFO"]))
        else:
            cases.append(Case("corpus:" + name, {"w.circom": data}, ["w.circom"]))
    adv = adversarial_cases(ctx, stats, thorough)
    cases += adv
    gseed = grammar_cases(ctx, n_grammar, counts, stats)
    cases += gseed
    seeds += [list(c.files.values())[0] for c in gseed[:200]]
    cases += mutation_cases(ctx, n_mut, seeds, stats)
    cases += bytes_cases(ctx, n_bytes, stats)

    failures = []       # (build, case, res, reasons)
    flat_timed = []     # long flat definitions that ended in time, run with the debug log of cfg.rs on
    evaluations = 0
    outcome = collections.Counter()
    shapes = set()
    walls = []
    analysed = 0
    slow = []
    t_run = time.time()
    for bname, binary in binaries:
        results = run_all(binary, cases, os.path.join(root, bname), common.NPROC)
        for c, r in zip(cases, results):
            evaluations += 1
            bad = judge(r)
            outcome[(bname, "timeout" if r["timed_out"] else r["rc"])] += 1
            shapes.add((c.kind.split(":")[0], r["rc"], tuple(r["codes"]), tuple(r["heads"]), r["analysed"] > 0))
            walls.append(r["wall"])
            analysed += 1 if r["analysed"] else 0
            if r["wall"] > 5:
                slow.append((r["wall"], bname, c.kind, c.depth))
            if r.get("phases") is not None and not bad:
                flat_timed.append((bname, binary, c, r))
            if bad:
                failures.append((bname, binary, c, r, bad))
            else:
                shutil.rmtree(r["dir"], ignore_errors=True)
    # a time-out observed while 16 processes ran side by side is re-measured under light
    # load. Per input class at most 3 are re-measured at first; when all of them time out
    # again the remaining time-outs of that class are taken as they are (a defect that
    # makes a whole class hang would otherwise cost 20 s per input), otherwise the class
    # is re-measured further.
    def remeasure(i):
        bname, binary, c, r, bad = failures[i]
        r2 = run_case(binary, c, os.path.join(root, "alone-" + bname), i)
        return i, r2
    pending = collections.defaultdict(list)
    for i, f in enumerate(failures):
        if f[3]["timed_out"]:
            pending[(f[0], f[2].kind)].append(i)
    confirmed = collections.Counter()
    rerun_alone = 0
    for key in pending:                 # smallest inputs first: the likeliest to pass alone
        pending[key].sort(key=lambda i: failures[i][2].size())
    while pending:
        batch = []
        for key in list(pending):
            take, pending[key] = pending[key][:3], pending[key][3:]
            batch += [(key, i) for i in take]
        with concurrent.futures.ThreadPoolExecutor(max_workers=4) as ex:
            results = dict(ex.map(remeasure, [i for _, i in batch]))
        rerun_alone += len(batch)
        passed_some = set()
        for key, i in batch:
            r2 = results[i]
            failures[i] = failures[i][:3] + (r2, judge(r2))
            if r2["timed_out"]:
                confirmed[key] += 1
            else:
                passed_some.add(key)
        for key in list(pending):
            if not pending[key] or (key not in passed_some and confirmed[key] >= 3):
                del pending[key]          # nothing left, or the class is confirmed to time out
    failures = [f for f in failures if f[4]]
    # fourth audit: the time OUTSIDE the boxed phases of every long flat definition against the calibrated cost model;
    # an excess is re-measured alone before it counts
    unboxed_rows = []
    for bname, binary, c, r in flat_timed:
        us, ub = unboxed_seconds(r), unboxed_bound(c)
        row = {"kind": c.kind, "build": bname, "wall": r["wall"], "boxed": round(r["wall"] - us, 2), "unboxed": us, "bound": ub}
        if us > ub:
            r2 = run_case(binary, c, os.path.join(root, "alone-" + bname), "unboxed-%d" % len(unboxed_rows), trace=True)
            row["unboxed_alone"] = unboxed_seconds(r2)
            if not judge(r2) and row["unboxed_alone"] > ub and len(ctx.violations) < 8:
                PHASE_STATS["unboxed_beyond_cost_model"] += 1
                ctx.violation("circomspect (%s build) on a %d-byte input [%s]: %.1f s outside the time-boxed propagation phases "
                              "(%.1f s when re-run alone); the cost model calibrated on the unchanged tool allows %.1f s for this "
                              "input" % (bname, c.size(), c.kind, us, row["unboxed_alone"], ub),
                              {"input": c.to_json(), "build": bname, "impl": {"rc": r2["rc"], "wall": r2["wall"],
                               "phases": r2.get("phases"), "unboxed_seconds": row["unboxed_alone"]},
                               "spec": "time outside value / degree propagation <= load factor x (5 s + 3 x (7e-4 b^2 + 1e-4 g^2 + 2.5e-6 n^2)) = %.1f s" % ub})
        unboxed_rows.append(row)
    run_s = time.time() - t_run

    # verdicts. Every failing input is classified on its own; those outside the
    # recorded classes are grouped by failure signature, the first of each group
    # is shrunk and reported.
    seen = {}
    known_cases = collections.Counter()

    def classify(i):
        bname, binary, c, r, bad = failures[i]
        return i, classify_known(ctx, c, r, binary, os.path.join(root, "long-" + bname))
    with concurrent.futures.ThreadPoolExecutor(max_workers=8) as ex:
        verdicts = dict(ex.map(classify, range(len(failures))))
    for i, (bname, binary, c, r, bad) in enumerate(failures):
        k = verdicts[i]
        if k:
            known_cases[k["id"]] += 1
            ctx.known_finding(k["id"], k["what"])
            continue
        sig = bname + " " + signature(r)
        seen.setdefault(sig, []).append((binary, c, r, bad))
    for sig, group in seen.items():
        if len(ctx.violations) >= 8:
            break
        binary, c, r, bad = group[0]
        bname = sig.split(" ")[0]
        small = c
        if not r["timed_out"] and c.size() < 400000:
            try:
                small = shrink(binary, c, signature(r), os.path.join(root, "shrink-" + bname))
            except Exception as e:      # shrinking is best effort
                common.log("shrink failed: %r" % (e,))
        r2 = run_case(binary, small, os.path.join(root, "final-" + bname), len(ctx.violations))
        if not judge(r2):
            small, r2 = c, r
        what = "circomspect (%s build) on a %d-byte input [%s]: %s (%d failing inputs with this signature)" % (
            bname, small.size(), c.kind, "; ".join(judge(r2) or bad), len(group))
        over = (r.get("rerun_long_watchdog") or {}).get("phases_beyond_box_plus_slack")
        lw_ = r.get("rerun_long_watchdog") or {}
        if lw_.get("unboxed_beyond_cost_model"):
            what += ("; under the %d s watchdog the run took %.1f s of which %.1f s lie OUTSIDE the time-boxed propagation phases; "
                     "the cost model calibrated on the unchanged tool allows %.1f s for this input, so the run is outside the "
                     "known class C01-long-definition-time" % (LONG_WATCHDOG_S, lw_["wall"], lw_["unboxed_seconds"],
                                                               max(lw_["unboxed_cost_model_bound"], WATCHDOG_S)))
        if over:
            what += ("; under the %d s watchdog a single %s-propagation phase of `%s` lasted %.1f s: the tool's own time box "
                     "(%.0f s, + %.0f s slack) did not cut it, so the run is outside the known class C01-long-definition-time"
                     % (LONG_WATCHDOG_S, over[0]["phase"], over[0]["definition"], over[0]["seconds"], RECORDED_BOX_S, BOX_SLACK_S))
        rep = {"input": small.to_json(), "original_size": c.size(), "build": bname, "impl": {
            "rc": r2["rc"], "timed_out": r2["timed_out"], "last_line": r2["last_line"], "stderr_tail": r2["stderr_tail"],
            "wall": r2["wall"], "rerun_long_watchdog": r.get("rerun_long_watchdog")},
            "spec": "exit status 0 or 1 after a summary line `circomspect: <n> issue(s) found.|No issues found.`, "
            "no panic, within %d s and %d GB" % (WATCHDOG_S, AS_LIMIT >> 30),
            "nesting_depth_estimate": max([nesting_depth(v) for v in small.files.values()] + [0]),
            "other_inputs_same_signature": [g[1].kind for g in group[1:6]]}
        ctx.violation(what, rep)

    # each known finding is replayed on its witness whether or not the search met it.  Third audit: a witness that
    # fails but no longer falls into ANY recorded class (e.g. the long definition whose propagation outlives the
    # tool's time box) is a failing input outside the known classes, reported as such
    def replay_known(k):
        w = k.get("witness") or {}
        if "shape" not in w:
            return None
        src = (NEST_SHAPES[w["shape"]](w["n"]) if w["shape"] in NEST_SHAPES else FLAT_SHAPES[w["shape"]](w["n"]))
        c = Case("known:" + k["id"], {"t.circom": src.encode()}, ["t.circom"], w["n"])
        r = run_case(debug_bin, c, os.path.join(root, "known"), k["id"])
        bad = judge(r)
        kk = classify_known(ctx, c, r, debug_bin, os.path.join(root, "known-long-" + k["id"])) if bad else None
        return k, c, r, bad, kk
    witness_outcomes = {}
    with concurrent.futures.ThreadPoolExecutor(max_workers=4) as ex:
        for got in ex.map(replay_known, ctx.known):
            if not got:
                continue
            k, c, r, bad, kk = got
            witness_outcomes[k["id"]] = ("passes now" if not bad else "in class " + kk["id"] if kk else "fails outside every class")
            if kk:
                ctx.known_finding(kk["id"], kk["what"])
                known_cases[kk["id"]] += 1
            elif bad and len(ctx.violations) < 8:
                lw = r.get("rerun_long_watchdog") or {}
                over = lw.get("phases_beyond_box_plus_slack")
                what = "circomspect (debug build) on the witness of the known finding %s (%d bytes): %s; the run is outside every " \
                       "recorded class" % (k["id"], c.size(), "; ".join(bad))
                if over:
                    what += (": under the %d s watchdog a single %s-propagation phase of `%s` lasted %.1f s, the tool's own time "
                             "box (%.0f s recorded, + %.0f s slack) did not cut it" % (LONG_WATCHDOG_S, over[0]["phase"],
                             over[0]["definition"], over[0]["seconds"], RECORDED_BOX_S, BOX_SLACK_S))
                ctx.violation(what, {"input": c.to_json(), "build": "debug", "impl": {
                    "rc": r["rc"], "timed_out": r["timed_out"], "last_line": r["last_line"], "wall": r["wall"],
                    "rerun_long_watchdog": lw}, "time_box_in_source": panicsites.time_box(),
                    "spec": "exit status 0 or 1 after a summary line within %d s, or a failure inside a recorded class "
                            "(for C01-long-definition-time: every propagation phase ends within the %.0f s box + %.0f s)"
                            % (WATCHDOG_S, RECORDED_BOX_S, BOX_SLACK_S)})

    # the tool's own time box is part of what C01 rests on: its value is read from the source on every run
    tb = panicsites.time_box()
    if tb["seconds"] != RECORDED_BOX_S or tb["uses"] != RECORDED_BOX_USES:
        msg = ("MAX_ANALYSIS_DURATION (control_flow_graph/cfg.rs) reads %s s and is compared with an elapsed time in %d places; "
               "recorded: %.0f s in %d places (value and degree propagation). The known class C01-long-definition-time and the "
               "20 s watchdog are calibrated on the recorded value" % (tb["seconds"], tb["uses"], RECORDED_BOX_S, RECORDED_BOX_USES))
        common.log(msg)
        if not any("input" in v["replay"] for v in ctx.violations):
            ctx.violation(msg, {"broken": "time box of cfg.rs", "time_box_in_source": tb,
                                "recorded": {"seconds": RECORDED_BOX_S, "uses": RECORDED_BOX_USES}}, no_input=True)

    # stage `chain`: the per-definition chain of Model.PipelineMirrors, extracted, on every definition the real
    # parser + desugarer produce for the single-file sources of this run (and the programs of the liftfull
    # generators): hypotheses of C01_definition_chain_never_panics evaluated, conclusion cross-checked, outcome
    # class compared with the real into_cfg + into_ssa
    chain_sources = sugar_matrix()
    fed = set()
    for c in cases:
        if len(c.files) == 1 and c.kind.split(":")[0] in ("grammar", "corpus", "mutant", "adversarial"):
            data = list(c.files.values())[0]
            if data not in fed:
                fed.add(data)
                chain_sources.append((c.kind.split(":")[0], data))
    t_chain = time.time()
    chain = c01chain.run(common, ctx.rng, not thorough, chain_sources, nesting_depth)
    chain_s = time.time() - t_chain
    if chain["impl_panics"]:
        f = chain["impl_panics"][0]
        ctx.violation("the real per-definition pipeline (into_cfg, into_ssa with propagation) panics on a definition of %s "
                      "(%d definitions, first: %s)" % (f["label"], len(chain["impl_panics"]), f["impl"]),
                      {"input": Case("chain", {"w.circom": f["src"].encode()}, ["w.circom"]).to_json(), "chain_src": f["src"],
                       "impl": f["impl"], "spec": "no panic", "model": f["model"], "replay_kind": "chain"})
    if chain["disagreements"]:
        f = chain["disagreements"][0]
        ctx.violation("the extracted chain Model.PipelineMirrors.analyse_body and the real into_cfg + into_ssa end in "
                      "different outcome classes (%d definitions, first: %s: real %s, mirror %s)"
                      % (len(chain["disagreements"]), f["label"], f["impl"], f["model"]),
                      {"input": Case("chain", {"w.circom": f["src"].encode()}, ["w.circom"]).to_json(), "chain_src": f["src"],
                       "impl": f["impl"], "spec": f["model"], "definition": f.get("def"), "replay_kind": "chain"})
    if chain["hyp_broken"]:
        f = chain["hyp_broken"][0]
        ctx.violation("a hypothesis of C01_definition_chain_never_panics / C01_pipeline_mirrors_never_panic does not hold "
                      "of a definition the real parser + desugarer hand to lifting: %s (%d definitions, first: %s)"
                      % (", ".join(f["unmet"]), len(chain["hyp_broken"]), f["label"]),
                      {"broken": "hypothesis " + ", ".join(f["unmet"]), "source": f["src"], "definition": f["def"],
                       "impl": f["impl"], "model": f["model"]}, no_input=True)
    if chain["thm_broken"] or chain["order_dependent"]:
        f = (chain["thm_broken"] or chain["order_dependent"])[0]
        ctx.violation("the extracted chain contradicts %s (hypotheses met, outcome %s) or its outcome depends on the "
                      "enumeration order of a hash set" % (f.get("contradicts", "C01_definition_chain_never_panics"),
                                                           f.get("model") or f.get("identity_order")),
                      {"broken": "%s vs coq/extract/chain" % f.get("contradicts", "C01_definition_chain_never_panics"),
                       "first": f}, no_input=True)
    if chain["degenerate"]:
        ctx.violation("the chain stage is degenerate: " + "; ".join(chain["degenerate"]),
                      {"broken": "lib/props/c01chain.py FIXED", "what": chain["degenerate"]}, no_input=True)

    # the theorems cited by the panic map must resolve in Coq (gen/PanicCites<Cnn>.v: one `Check` each)
    unresolved, unchecked, cites_n = panicsites.cites_check()
    cites_verdict(ctx, unresolved, unchecked, ready_properties())

    if not ctx.violations and proofs["failures"]:
        ctx.violation("proof obligations of C01 no longer check: " + "; ".join(proofs["failures"])[:700],
                      {"broken": "props/C01.v", "failures": proofs["failures"],
                       "inventory_diff": panicsites.unmapped_summary()}, no_input=True)

    by_kind = collections.Counter(c.kind.split(":")[0] for c in cases)
    total = sum(counts.values()) or 1
    nonterminals = collections.Counter()
    for k, v in counts.items():
        nonterminals[k.split(":")[0]] += v

    def dist(xs):
        xs = sorted(xs)
        if not xs:
            return {}
        return {"n": len(xs), "min": xs[0], "median": xs[len(xs) // 2], "p90": xs[int(len(xs) * 0.9)], "max": xs[-1]}
    depth_pass = collections.defaultdict(dict)
    for bname, binary in binaries[:1]:
        pass
    ctx.coverage.update({
        "evaluations": evaluations,
        "distinct_nontrivial": len(shapes),
        "rule": "one evaluation = one run of the real binary on one input set and option set; distinct-nontrivial counts the "
                "distinct observable behaviours (input class, exit status, set of report codes shown, severities shown, "
                "whether a definition reached analysis)",
        "exhaustive": False,
        "samples": [{"kind": c.kind, "argv": c.argv, "bytes": c.size()} for c in (cases[0], cases[len(cases) // 2], cases[-1])],
        "inputs_per_class": dict(by_kind),
        "builds": [b for b, _ in binaries],
        "outcomes": {"%s rc=%s" % k: v for k, v in sorted(outcome.items(), key=str)},
        "inputs_with_a_definition_reaching_analysis": analysed,
        "grammar_production_use": {k: v for k, v in sorted(counts.items())},
        "grammar_production_weights_measured": {k: round(v / total, 4) for k, v in nonterminals.most_common()},
        "grammar_bytes": dist(stats["grammar_bytes"]), "mutant_bytes": dist(stats["mutant_bytes"]),
        "bytes_bytes": dist(stats["bytes_bytes"]),
        "wall_per_input_s": dist(walls), "slowest": sorted(slow, reverse=True)[:8],
        "run_seconds": round(run_s, 1),
        "failing_signatures_outside_known_classes": {k: len(v) for k, v in seen.items()},
        "failing_inputs_in_known_class": dict(known_cases),
        "mutation_seeds": len(seeds), "timeouts_remeasured_alone": rerun_alone,
        "cross_file_name_clashes_generated": dict(collections.Counter(stats["cross_file_name_clashes"])),
        "library_include_graphs_generated": dict(collections.Counter(stats["library_include_graphs_generated"])),
        "linked_directory_cases": sum(1 for c in cases if c.kind.startswith("adversarial:linked-directory")),
        "random_named_directories_with_links": dict(collections.Counter(stats["named_directory_links"])),
        "include_project_matrix_cases": sum(1 for c in cases if c.kind.startswith("adversarial:include-project")),
        "name_clash_matrix_cases": sum(1 for c in cases if c.kind.startswith("adversarial:name-clash")),
        "known_witness_outcomes": witness_outcomes,
        "long_flat_definitions_timed": unboxed_rows,
        "time_box": {"in_source": tb, "recorded_seconds": RECORDED_BOX_S, "slack_seconds": BOX_SLACK_S, **PHASE_STATS,
                     "rule": "every time-out that is a candidate of C01-long-definition-time is re-run under the %d s watchdog "
                             "with the debug log of cfg.rs on; each value / degree propagation phase of each definition is "
                             "timed; a phase beyond box + slack takes the input out of the class" % LONG_WATCHDOG_S},
        "watchdog_s": WATCHDOG_S, "address_space_limit_bytes": AS_LIMIT,
        "modest_size": "<= %d bytes and syntactic nesting estimate <= %d" % (MODEST_BYTES, MODEST_DEPTH),
        "panic_sites": panicsites.summary(),
        "chain": {k: v for k, v in chain.items() if not isinstance(v, list)}
                 | {"seconds": round(chain_s, 1), "disagreements": len(chain["disagreements"]),
                    "hypotheses_unmet": len(chain["hyp_broken"]), "theorem_cross_check_failures": len(chain["thm_broken"]),
                    "real_panics": len(chain["impl_panics"]), "order_dependent_outcomes": len(chain["order_dependent"]),
                    "rule": "one evaluation = one distinct definition (DEF text) handed to lifting by the real parser + "
                            "desugarer; every occurrence of it is compared with the real outcome class"},
        "open_statements": [
            "the LALRPOP parser is a parameter of the chain: a panic inside the generated automaton cannot be expressed in "
            "C01_pipeline_mirrors_never_panic (its semantic actions are covered by the action theorems; the automaton is "
            "exercised by the engine)",
        ],
    })
    ctx.assumptions += [
        "observed, not proved: the LALRPOP automaton and lexer, clap, codespan-reporting/termcolor, serde_sarif, std::fs, "
        "allocation and stack depth, wall-clock time (20 s watchdog, 4 GB address-space limit)",
        "C01_pipeline_mirrors_never_panic composes the mirrors of include resolution, desugaring, renaming + lifting + IR lifting "
        "(Model.LiftFull), dominator tree, SSA construction and propagation; the LALRPOP parser is a parameter of the chain (a panic "
        "inside the automaton cannot be expressed in the theorem); its remaining hypotheses per body handed to lifting "
        "(PipelineMirrors.body_ok: declaration keys after the renaming mirror pairwise different, literals non-negative) are "
        "decidable and EVALUATED by the stage `chain` on every definition the real parser + "
        "desugarer produce for the explored sources (coverage chain.hypothesis_evaluations), together with is_block / "
        "stmt_sugar_free / ast_init_flat / ast_init_ok of the real desugarer's output; wf_template of the parser's output is "
        "evaluated by C18's engine; that the SSA output has one defining assignment per local (C20's second premise, formerly "
        "the hypothesis ssa_output_ok) is proved (C01_chain_ssa_output_unique_local_defs) and still evaluated as a cross-check; "
        "the analysis passes and the output stage are not part of the chain: no theorem covers them (the generic "
        "assembly over abstract stages, formerly C01_pipeline_total, is no obligation any more), they are observed by the "
        "engine and their syntactic panic sites are inventoried; the mirrors are tied to the code by the correspondence runs of their own properties and, by outcome "
        "class per definition, by the stage `chain`",
        "the panic-site scanner is syntactic (regular expressions over the source with test modules removed); "
        "macro-generated or trait-dispatched panics inside dependencies are outside the inventory",
        "stdout is open (a closed stdout makes `expect(\"failed to write ...\")` fire; run-time environment, DESIGN §5.3)",
    ]


def replay(ctx, rep):
    if rep.get("replay_kind") == "chain" and "chain_src" in rep:
        return 1 if c01chain.replay_source(common, rep["chain_src"]) else 0
    if "input" not in rep:
        print("replay names a broken obligation, not an input:", rep.get("broken"))
        print(json.dumps(rep.get("inventory_diff"), indent=1)[:3000])
        return 1
    case = Case.from_json(rep["input"])
    binary = common.build_cli() if rep.get("build", "debug") == "debug" else build_cli_release()
    r = run_case(binary, case, os.path.join(ctx.work, "replay"), 0)
    bad = judge(r)
    print("argv          :", case.argv)
    print("files         :", {k: len(v) for k, v in case.files.items()})
    print("exit status   :", r["rc"], "(timed out)" if r["timed_out"] else "")
    print("last line     :", r["last_line"])
    print("stderr (tail) :", r["stderr_tail"][-400:])
    print("verdict       :", "; ".join(bad) if bad else "passes")
    return 1 if bad else 0
