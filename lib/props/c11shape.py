"""C11 - strict reading of the anchored Rust sources.

The tables of coq/gen/CurveTables.v are regenerated from four Rust files.  This
module reads them STRICTLY: every anchored item (function, const array, enum,
struct) is cut out of the token stream of its file (comments and white space
are not tokens) and its WHOLE token stream is matched against a template with
named holes.  A template is Rust text; the holes are

    $kind:name            one token of the kind  str | num | id | cmp | sign
                          (name `_` = matched but not kept)
    $[name ... $]         the enclosed sequence zero or more times
    $(name ... $)         the enclosed sequence zero times or once

and every other token must be present literally, in order, with nothing left
over.  An extra statement, an early `return`, an extra conjunct, a changed
comparison operator outside a `$cmp` hole, a changed signature ... make the
match fail; the caller then marks every table entry that is read from that item
as `unrecognised` (so the Coq obligations over the table break) and reports the
item as a correspondence problem.

Besides the anchored items the INVENTORY of each file is compared: the list of
`impl` headers, functions (with attributes and qualifiers), consts, structs and
enums (with their derive attributes) outside `#[cfg(test)]` modules.  A new
trait implementation (a hand-written `PartialEq for Curve`, `Hash for
VariableAccess`) or a second function of the same name under `cfg` changes the
inventory without changing any anchored body.  The `use` declarations of each
file (with the attributes, inner `#![...]` ones included, that precede them) are
inventory rows too: a changed import (another `Curve`, `HashSet`, `BigInt`) or a
new crate-level attribute is seen.

Third audit (false alarms on harmless rewrites): local variables of the anchored
functions are `$loc` holes (LOCALS: renamed consistently the item still matches; a
local may not take the name of another local or of an identifier the template
spells out); either order of `is_local() || is_signal()`; a guard comparison
written the other way round (the caller flips the operator); a dispatch arm
without braces; no trailing comma in `enum Curve`; visibility qualifiers are
dropped from the inventory, the order of the items does not matter, and NEW free
functions / consts / types / imports are tolerated (no anchored body can use
them) - a new `impl` / `trait` / `mod`, a changed derive, a missing or duplicated
item still fail.

Second audit: (1) `enum Curve` pins `#[default]` to its first variant (the
template no longer lets it sit on any variant; the caller checks that the first
variant is Bn254); (2) the report builder of each guard block of the non-strict
pass is bound ($id:builder) and the caller pins it to `build_<literal in lower
case>`; (3) two items of the CLI are anchored (read_cli): the `curve` field of
`struct Cli` in cli/src/main.rs with its whole `#[clap(...)]` attribute (the
`default_value`), and the const `DEFAULT_CURVE` of program_analysis/src/config.rs.
"""
import re

# ---------------------------------------------------------------------------
# tokenizer (comments stripped, string literals kept as single tokens)
# ---------------------------------------------------------------------------
TOK = re.compile(r'''
    (?P<lc>//[^\n]*) | (?P<bc>/\*.*?\*/) |
    (?P<raw>r\#"(?:.|\n)*?"\#) |
    (?P<str>"(?:[^"\\]|\\.)*") |
    (?P<chr>'(?:[^'\\]|\\.)') |
    (?P<id>[A-Za-z_][A-Za-z0-9_]*) |
    (?P<num>[0-9][0-9_]*) |
    (?P<op>::|=>|==|!=|<=|>=|&&|\|\||->|[-+*/%<>=!&|^~?.,;:(){}\[\]\#@$'])
    | (?P<ws>\s+)
''', re.X | re.S)


def tokens(text):
    out, i = [], 0
    while i < len(text):
        m = TOK.match(text, i)
        if not m:
            out.append(("op", text[i]))
            i += 1
            continue
        i = m.end()
        k = m.lastgroup
        if k in ("lc", "bc", "ws"):
            continue
        out.append((k, m.group(k)))
    return out


def unquote(s):
    body = s[1:-1]
    return re.sub(r'\\(.)', lambda m: {"n": "\n", "t": "\t", "\\": "\\", '"': '"'}.get(m.group(1), m.group(1)), body)


def joined(toks):
    """Token stream as one normalised string (single spaces between tokens)."""
    return " ".join(t[1] for t in toks)


CMP_OPS = ("<", "<=", ">", ">=", "==", "!=")

# Fourth audit: statements that only log (`debug!(..);`, `trace!(..);` ...) are not part of the compared token
# stream - neither in the templates nor in the sources - so that an added or removed log line is no alarm.
# (Trusted: the arguments of a log macro have no effect on the analysis.)
LOG_MACROS = ("trace", "debug", "info", "warn", "error")


def strip_logs(toks):
    out, i = [], 0
    while i < len(toks):
        if (toks[i][0] == "id" and toks[i][1] in LOG_MACROS and i + 2 < len(toks) and toks[i + 1] == ("op", "!")
                and toks[i + 2] == ("op", "(") and (i == 0 or toks[i - 1][1] in (";", "{", "}"))):
            depth, j = 0, i + 2
            while j < len(toks):
                if toks[j] == ("op", "("):
                    depth += 1
                elif toks[j] == ("op", ")"):
                    depth -= 1
                    if depth == 0:
                        break
                j += 1
            if j + 1 < len(toks) and toks[j + 1] == ("op", ";"):
                i = j + 2
                continue
        out.append(toks[i])
        i += 1
    return out

# ---------------------------------------------------------------------------
# templates
# ---------------------------------------------------------------------------
HOLE_KINDS = ("str", "num", "id", "cmp", "sign", "loc")
# `$loc:name` (third audit): a LOCAL identifier - any identifier on its first occurrence, the same one on every
# later occurrence (a renamed local variable is the same program).  match_template(..., locals=(...)) turns
# every literal token that is one of the named locals into such a hole.


def parse_template(text):
    toks = strip_logs(tokens(text))
    pos = [0]

    def seq(closer):
        out = []
        while pos[0] < len(toks):
            k, v = toks[pos[0]]
            if v == "$":
                v2 = toks[pos[0] + 1][1]
                if v2 in ("[", "("):
                    name = toks[pos[0] + 2][1]
                    pos[0] += 3
                    body = seq("]" if v2 == "[" else ")")
                    out.append(("rep" if v2 == "[" else "opt", name, body))
                    continue
                if v2 in ("]", ")"):
                    if v2 != closer:
                        raise ValueError("template: unbalanced $%s" % v2)
                    pos[0] += 2
                    return out
                if v2 not in HOLE_KINDS or toks[pos[0] + 2][1] != ":":
                    raise ValueError("template: bad hole near %r" % joined(toks[pos[0]:pos[0] + 5]))
                out.append(("hole", v2, toks[pos[0] + 3][1]))
                pos[0] += 4
                continue
            if out and out[-1][0] == "lit":
                out[-1][1].append((k, v))
            else:
                out.append(("lit", [(k, v)]))
            pos[0] += 1
        if closer is not None:
            raise ValueError("template: missing $%s" % closer)
        return out
    return seq(None)


def _hole(kind, tok):
    k, v = tok
    if kind == "str":
        return (True, unquote(v)) if k == "str" else (False, None)
    if kind == "num":
        return (True, int(v.replace("_", ""))) if k == "num" else (False, None)
    if kind == "id":
        return (True, v) if k == "id" else (False, None)
    if kind == "cmp":
        return (True, v) if v in CMP_OPS else (False, None)
    if kind == "sign":
        return (True, v) if v in ("+", "-") else (False, None)
    return (False, None)


def _match(nodes, ni, toks, ti, env, st):
    """Backtracking matcher: yields (token index after the match, bindings)."""
    if ti > st["far"]:
        st["far"], st["want"] = ti, None
    if ni == len(nodes):
        yield ti, env
        return
    n = nodes[ni]
    if n[0] == "lit":
        lit = n[1]
        for d, t in enumerate(lit):
            if ti + d >= len(toks) or toks[ti + d] != t:
                if ti + d >= st["far"]:
                    st["far"], st["want"] = ti + d, t[1]
                return
        yield from _match(nodes, ni + 1, toks, ti + len(lit), env, st)
    elif n[0] == "hole":
        if ti >= len(toks):
            if ti >= st["far"]:
                st["far"], st["want"] = ti, "<%s>" % n[1]
            return
        if n[1] == "loc":
            k, v = toks[ti]
            key = "@" + n[2]
            bound = st["locs"].get(key)
            free = k == "id" and v not in RUST_WORDS and (bound == v or (
                bound is None and v not in st["locs"].values() and v not in st["lits"]))
            if not free:
                if ti >= st["far"]:
                    st["far"], st["want"] = ti, "<local %s>" % (bound or n[2])
                return
            if bound is None:
                st["locs"][key] = v
                yield from _match(nodes, ni + 1, toks, ti + 1, env, st)
                del st["locs"][key]
            else:
                yield from _match(nodes, ni + 1, toks, ti + 1, env, st)
            return
        ok, val = _hole(n[1], toks[ti])
        if not ok:
            if ti >= st["far"]:
                st["far"], st["want"] = ti, "<%s>" % n[1]
            return
        e2 = env if n[2] == "_" else env + ((n[2], val),)
        yield from _match(nodes, ni + 1, toks, ti + 1, e2, st)
    elif n[0] == "opt":
        for tj, e2 in _match(n[2], 0, toks, ti, (), st):
            yield from _match(nodes, ni + 1, toks, tj, env + ((n[1], [dict(e2)]),), st)
        yield from _match(nodes, ni + 1, toks, ti, env + ((n[1], []),), st)
    elif n[0] == "rep":
        def more(tcur, acc):
            for tj, e2 in _match(n[2], 0, toks, tcur, (), st):
                if tj > tcur:
                    yield from more(tj, acc + [dict(e2)])
            yield tcur, acc
        for tj, acc in more(ti, []):
            yield from _match(nodes, ni + 1, toks, tj, env + ((n[1], acc),), st)


RUST_WORDS = frozenset("""as break const continue crate else enum extern false fn for if impl in let loop match mod move mut
pub ref return self Self static struct super trait true type unsafe use where while Some None Ok Err""".split())


def _localise(nodes, names):
    """Literal identifier tokens that name one of the locals become `$loc` holes."""
    out = []
    for n in nodes:
        if n[0] == "lit":
            run = []
            for k, v in n[1]:
                if k == "id" and v in names:
                    if run:
                        out.append(("lit", run))
                        run = []
                    out.append(("hole", "loc", v))
                else:
                    run.append((k, v))
            if run:
                out.append(("lit", run))
        elif n[0] in ("rep", "opt"):
            out.append((n[0], n[1], _localise(n[2], names)))
        else:
            out.append(n)
    return out


def _literal_ids(nodes):
    out = set()
    for n in nodes:
        if n[0] == "lit":
            out |= {v for k, v in n[1] if k == "id"}
        elif n[0] in ("rep", "opt"):
            out |= _literal_ids(n[2])
    return out


def match_template(template, toks, locals=()):
    """-> (bindings dict | None, reason).  The whole token list must be consumed.
    `locals`: identifiers of the template that are local variables of the item (bound by `let`, a
    closure / function parameter or a pattern with an explicit `field: name`): renamed consistently,
    the item still matches.  Two locals never share one name and a local never takes the name of an
    identifier the template spells out (that could be a capture; such a text does not match)."""
    nodes = parse_template(template)
    toks = strip_logs(toks)
    if locals:
        nodes = _localise(nodes, frozenset(locals))
    st = {"far": 0, "want": None, "locs": {}, "lits": _literal_ids(nodes)}
    for tj, env in _match(nodes, 0, toks, 0, (), st):
        if tj == len(toks):
            return dict(env), ""
        if tj > st["far"] or (tj == st["far"] and st["want"] is None):
            st["far"], st["want"] = tj, "<end of item>"
    far = st["far"]
    found = joined(toks[far:far + 8]) if far < len(toks) else "<end of item>"
    before = joined(toks[max(0, far - 6):far])
    return None, "after `%s` found `%s`, the template wants `%s`" % (before, found, st["want"] or "<end of item>")


# ---------------------------------------------------------------------------
# items of a file
# ---------------------------------------------------------------------------
def _close(toks, i):
    """Index of the bracket closing the one at i."""
    pairs = {"{": "}", "(": ")", "[": "]"}
    o = toks[i][1]
    c = pairs[o]
    depth = 0
    j = i
    while j < len(toks):
        if toks[j][0] == "op":
            if toks[j][1] == o:
                depth += 1
            elif toks[j][1] == c:
                depth -= 1
                if depth == 0:
                    return j
        j += 1
    raise ValueError("unbalanced %s" % o)


KEYWORDS = ("fn", "const", "static", "struct", "enum", "union", "impl", "mod", "trait", "macro_rules", "type")


def scan_items(toks):
    """[(container, header, kind, name, lo, hi)] of the items outside #[cfg(test)]
    modules.  header = the item's tokens up to and including its name (attributes,
    `pub`, qualifiers), joined; toks[lo:hi] = the item from its keyword to its end."""
    out = []

    def header_of(hdr):
        """(kind, name, index in hdr of the keyword)"""
        for x, (k, v) in enumerate(hdr):
            if k == "id" and v == "fn":
                return "fn", hdr[x + 1][1] if x + 1 < len(hdr) else "?", x
        for x, (k, v) in enumerate(hdr):
            # attributes come first: skip the bracket groups
            if k == "id" and v in KEYWORDS and not _inside_attr(hdr, x):
                if v in ("impl", "mod", "trait"):
                    return v, joined(hdr[x:]), x
                return v, hdr[x + 1][1] if x + 1 < len(hdr) else "?", x
        return None, None, None

    def scan(lo, hi, container):
        i, start = lo, lo
        while i < hi:
            k, v = toks[i]
            if k == "op" and v in ("(", "["):
                i = _close(toks, i) + 1
            elif k == "op" and v == ";":
                hdr = toks[start:i]
                kind, name, x = header_of(hdr)
                if kind in ("const", "static", "struct", "fn", "type"):
                    out.append((container, joined(hdr[:x + 2]), kind, name, start + x, i + 1))
                elif kind is None and any(k2 == "id" and v2 == "use" and not _inside_attr(hdr, y) for y, (k2, v2) in enumerate(hdr)):
                    # a `use` declaration (with the attributes - inner `#![...]` ones included - that precede it):
                    # part of the inventory, so that a changed import (another `Curve`, `HashSet`, `BigInt` ...)
                    # or a new crate-level attribute is seen
                    out.append((container, joined(hdr), "use", joined(hdr), start, i + 1))
                start = i + 1
                i += 1
            elif k == "op" and v == "{":
                j = _close(toks, i)
                hdr = toks[start:i]
                kind, name, x = header_of(hdr)
                if kind in ("const", "static"):
                    i = j + 1          # a block initialiser: the item ends at its `;`
                    continue
                if kind in ("impl", "mod", "trait"):
                    is_test = "# [ cfg ( test ) ]" in joined(hdr)
                    if not is_test:
                        out.append((container, joined(hdr), kind, name, start + x, j + 1))
                        scan(i + 1, j, name)
                elif kind is not None:
                    end = j + 1
                    out.append((container, joined(hdr[:x + 2]), kind, name, start + x, end))
                elif any(k2 == "id" and v2 == "use" for k2, v2 in hdr):
                    i = j + 1          # `use a::{b, c};`: the item ends at its `;`
                    continue
                else:
                    out.append((container, joined(hdr), "?", "?", start, j + 1))
                start = j + 1
                i = j + 1
            else:
                i += 1
    scan(0, len(toks), "")
    return out


def _inside_attr(hdr, x):
    """Is token x of the header inside a `# [ ... ]` attribute?"""
    depth = 0
    for k, v in hdr[:x]:
        if k == "op" and v == "[":
            depth += 1
        elif k == "op" and v == "]":
            depth -= 1
    return depth > 0


# ---------------------------------------------------------------------------
# the anchored items and their templates
# ---------------------------------------------------------------------------
# bn254_specific_circuit.rs ---------------------------------------------------
T_CONST_ARRAY = r'''
const $id:name : [ &str ; $num:decl ] = [ $[items $str:item , $] $(last $str:item $) ] ;
'''

T_BN254_FIND = r'''
fn find_bn254_specific_circuits(cfg: &Cfg) -> ReportCollection {
    let problematic_templates = match cfg.constants().curve() {
        $[arms
        Curve::$id:variant =>
            $(arr HashSet::from($id:array) $)
            $(ret { return ReportCollection::new(); } $)
            $(ret2 return ReportCollection::new() $)
            $(comma , $)
        $]
    };
    debug!($str:_);
    let mut reports = ReportCollection::new();
    for basic_block in cfg.iter() {
        for stmt in basic_block.iter() {
            visit_statement(stmt, &problematic_templates, &mut reports);
        }
    }
    debug!($str:_, reports.len());
    reports
}
'''

T_BN254_VISIT = r'''
fn visit_statement(
    stmt: &Statement,
    problematic_templates: &HashSet<&str>,
    reports: &mut ReportCollection,
) {
    use AssignOp::*;
    use Expression::*;
    use Statement::*;
    if let Substitution { meta: var_meta, op: AssignLocalOrComponent, rhe, .. } = stmt {
        if $(ls var_meta.type_knowledge().is_local() || var_meta.type_knowledge().is_signal() $)
           $(sl var_meta.type_knowledge().is_signal() || var_meta.type_knowledge().is_local() $) {
            return;
        }
        let rhe = if let Update { rhe, .. } = rhe { rhe } else { rhe };
        if let Call { meta: component_meta, name: component_name, .. } = rhe {
            if problematic_templates.contains(&&component_name[..]) {
                reports.push(build_report(component_meta, component_name));
            }
        }
    }
}
'''

# nonstrict_binary_conversion.rs ---------------------------------------------
T_NONSTRICT_FIND = r'''
fn find_nonstrict_binary_conversion(cfg: &Cfg) -> ReportCollection {
    use DefinitionType::*;
    if matches!(cfg.definition_type(), $id:exempt0 $[exempt | $id:d $]) {
        return ReportCollection::new();
    }
    if cfg.constants().curve() $cmp:curve_op &Curve::$id:curve_variant {
        return ReportCollection::new();
    }
    debug!($str:_);
    let mut reports = ReportCollection::new();
    let prime_size = BigInt::from(cfg.constants().prime_size() $(off $sign:s $num:n $));
    for basic_block in cfg.iter() {
        for stmt in basic_block.iter() {
            visit_statement(stmt, &prime_size, &mut reports);
        }
    }
    debug!($str:_, reports.len());
    reports
}
'''

T_NONSTRICT_VISIT = r'''
fn visit_statement(stmt: &Statement, prime_size: &BigInt, reports: &mut ReportCollection) {
    use AssignOp::*;
    use Expression::*;
    use Statement::*;
    use ValueReduction::*;
    if let Substitution { meta: var_meta, op: AssignLocalOrComponent, rhe, .. } = stmt {
        if $(ls var_meta.type_knowledge().is_local() || var_meta.type_knowledge().is_signal() $)
           $(sl var_meta.type_knowledge().is_signal() || var_meta.type_knowledge().is_local() $) {
            return;
        }
        let rhe = if let Update { rhe, .. } = rhe { rhe } else { rhe };
        if let Call { meta: component_meta, name: component_name, args } = rhe {
            $[guards
            if component_name == $str:lit && args.len() == $num:arity {
                let arg = &args[$num:idx];
                if let Some(FieldElement { value }) = arg.value() {
                    if $(fwd value $cmp:op prime_size $) $(rev prime_size $cmp:op value $) {
                        return;
                    }
                }
                reports.push($id:builder(component_meta));
            }
            $]
        }
    }
}
'''

# unconstrained_less_than.rs -------------------------------------------------
T_LESSTHAN_FIND = r'''
fn find_unconstrained_less_than(cfg: &Cfg) -> ReportCollection {
    debug!($str:_);
    let mut components = HashMap::new();
    for basic_block in cfg.iter() {
        for stmt in basic_block.iter() {
            update_components(stmt, &mut components);
        }
    }
    let mut inputs = Vec::new();
    for basic_block in cfg.iter() {
        for stmt in basic_block.iter() {
            update_inputs(stmt, &components, &mut inputs);
        }
    }
    let mut constraints = HashMap::<Expression, ConstraintData>::new();
    for input in inputs {
        match input {
            ComponentInput::LessThan { value } => {
                let entry = constraints.entry(*value.clone()).or_default();
                entry.less_than.push(value.meta().clone());
            }
            ComponentInput::Num2Bits { value, bit_size, .. } => {
                let entry = constraints.entry(*value.clone()).or_default();
                entry.num_2_bits.push(value.meta().clone());
                entry.bit_sizes.push(*bit_size.clone());
            }
        }
    }
    let mut reports = ReportCollection::new();
    let max_value = BigInt::from(cfg.constants().prime_size() $(off $sign:s $num:n $));
    for (value, data) in constraints {
        if data.less_than.is_empty() {
            continue;
        }
        let mut is_positive = false;
        for bit_size in &data.bit_sizes {
            if let Some(ValueReduction::FieldElement { value }) = bit_size.value() {
                if $(fwd value $cmp:op &max_value $) $(rev &max_value $cmp:op value $) {
                    is_positive = true;
                    break;
                }
            }
        }
        if is_positive {
            continue;
        }
        reports.push(build_report(&value, &data));
    }
    debug!($str:_, reports.len());
    reports
}
'''

T_LESSTHAN_COMPONENTS = r'''
fn update_components(stmt: &Statement, components: &mut HashMap<VariableAccess, Component>) {
    use AssignOp::*;
    use Statement::*;
    use Expression::*;
    if let Substitution { meta, var, op: AssignLocalOrComponent, rhe, .. } = stmt {
        if $(ls meta.type_knowledge().is_local() || meta.type_knowledge().is_signal() $)
           $(sl meta.type_knowledge().is_signal() || meta.type_knowledge().is_local() $) {
            return;
        }
        let (rhe, access) = if let Update { access, rhe, .. } = rhe {
            (rhe.as_ref(), access.clone())
        } else {
            (rhe, Vec::new())
        };
        if let Call { name: component_name, args, .. } = rhe {
            if component_name == $str:lt_name && args.len() == $num:lt_arity {
                trace!($str:_, vec_to_display(&access, ""));
                let component = VariableAccess::new(var, &access);
                components.insert(component, Component::less_than());
            } else if component_name == $str:rc_name && args.len() == $num:rc_arity {
                trace!($str:_, vec_to_display(&access, ""));
                let component = VariableAccess::new(var, &access);
                $(weakest
                let keep_old = match components.get(&component) {
                    Some(Component::Num2Bits { bit_size: old }) => {
                        match (old.value(), args[$num:w_idx].value()) {
                            (
                                Some(ValueReduction::FieldElement { value: old_size }),
                                Some(ValueReduction::FieldElement { value: new_size }),
                            ) => old_size >= new_size,
                            (Some(ValueReduction::FieldElement { .. }), _) => false,
                            _ => true,
                        }
                    }
                    _ => false,
                };
                $)
                $(plain components.insert(component, Component::num_2_bits(&args[$num:rc_idx])); $)
                $(guarded if !keep_old {
                    components.insert(component, Component::num_2_bits(&args[$num:rc_idx]));
                } $)
            }
        }
    }
}
'''

T_LESSTHAN_INPUTS = r'''
fn update_inputs(
    stmt: &Statement,
    components: &HashMap<VariableAccess, Component>,
    inputs: &mut Vec<ComponentInput>,
) {
    use AssignOp::*;
    use Statement::*;
    use Expression::*;
    use AccessType::*;
    if let Substitution {
        var, op: AssignConstraintSignal, rhe: Update { access, rhe, .. }, ..
    } = stmt
    {
        let mut component_access = access.clone();
        let signal_access = component_access.pop();
        let component = VariableAccess::new(var, &component_access);
        if let Some(Component::Num2Bits { bit_size, .. }) = components.get(&component) {
            let Some(ComponentAccess(signal_name)) = signal_access else {
                return;
            };
            if signal_name != $str:rc_signal {
                return;
            }
            trace!($str:_);
            inputs.push(ComponentInput::num_2_bits(rhe, bit_size));
        }
        let mut component_access = access.clone();
        let index_access = component_access.pop();
        let signal_access = component_access.pop();
        let component = VariableAccess::new(var, &component_access);
        if let Some(Component::LessThan { .. }) = components.get(&component) {
            let (Some(ComponentAccess(signal_name)), Some(ArrayAccess(_))) =
                (signal_access, index_access)
            else {
                return;
            };
            if signal_name != $str:lt_signal {
                return;
            }
            trace!($str:_);
            inputs.push(ComponentInput::less_than(rhe));
        }
    }
}
'''

T_LT_VA_STRUCT = r'''
struct VariableAccess {
    pub var: VariableName,
    pub access: Vec<AccessType>,
}
'''
T_LT_VA_NEW = r'''
fn new(var: &VariableName, access: &[AccessType]) -> Self {
    VariableAccess { var: var.without_version(), access: access.to_vec() }
}
'''
T_LT_COMPONENT_ENUM = r'''
enum Component {
    LessThan,
    Num2Bits { bit_size: Box<Expression> },
}
'''
T_LT_C_LESS_THAN = r'''
fn less_than() -> Self {
    Self::LessThan
}
'''
T_LT_C_NUM2BITS = r'''
fn num_2_bits(bit_size: &Expression) -> Self {
    Self::Num2Bits { bit_size: Box::new(bit_size.clone()) }
}
'''
T_LT_INPUT_ENUM = r'''
enum ComponentInput {
    LessThan { value: Box<Expression> },
    Num2Bits { value: Box<Expression>, bit_size: Box<Expression> },
}
'''
T_LT_I_LESS_THAN = r'''
fn less_than(value: &Expression) -> Self {
    Self::LessThan { value: Box::new(value.clone()) }
}
'''
T_LT_I_NUM2BITS = r'''
fn num_2_bits(value: &Expression, bit_size: &Expression) -> Self {
    Self::Num2Bits { value: Box::new(value.clone()), bit_size: Box::new(bit_size.clone()) }
}
'''
T_LT_CONSTRAINT_DATA = r'''
struct ConstraintData {
    pub less_than: Vec<Meta>,
    pub num_2_bits: Vec<Meta>,
    pub bit_sizes: Vec<Expression>,
}
'''

# constants.rs ---------------------------------------------------------------
T_ENUM_CURVE = r'''
enum Curve {
    #[default] $id:first $(c0 , $)
    $[variants $id:variant , $] $(last $id:variant $)
}
'''
T_CURVE_PRIME = r'''
fn prime(&self) -> BigInt {
    use Curve::*;
    let prime = match self {
        $[arms
        $id:variant => $(block { $str:p } $) $(plain $str:p $) $(comma , $)
        $]
    };
    BigInt::parse_bytes(prime.as_bytes(), 10).expect($str:_)
}
'''
T_FROM_STR = r'''
fn from_str(curve: &str) -> Result<Self, Self::Err> {
    match &curve.$id:normaliser()[..] {
        $[arms $str:lit => Ok(Curve::$id:variant), $]
        _ => Err(anyhow!($str:_)),
    }
}
'''
T_UC_STRUCT = r'''
struct UsefulConstants {
    curve: Curve,
    prime: BigInt,
}
'''
T_UC_NEW = r'''
fn new(curve: &Curve) -> UsefulConstants {
    UsefulConstants { curve: curve.clone(), prime: curve.prime() }
}
'''
T_UC_CURVE = r'''
fn curve(&self) -> &Curve {
    &self.curve
}
'''
T_UC_PRIME = r'''
fn prime(&self) -> &BigInt {
    &self.prime
}
'''
T_UC_PRIME_SIZE = r'''
fn prime_size(&self) -> usize {
    self.prime.bits()
}
'''

# (file key, container, kind, name) -> (label, template).  Every const of
# bn254_specific_circuit.rs is matched against T_CONST_ARRAY (see read_file).
ANCHORS = {
    "bn254": [
        ("", "fn", "find_bn254_specific_circuits", "bn254::find_bn254_specific_circuits", T_BN254_FIND),
        ("", "fn", "visit_statement", "bn254::visit_statement", T_BN254_VISIT),
    ],
    "nonstrict": [
        ("", "fn", "find_nonstrict_binary_conversion", "nonstrict::find_nonstrict_binary_conversion", T_NONSTRICT_FIND),
        ("", "fn", "visit_statement", "nonstrict::visit_statement", T_NONSTRICT_VISIT),
    ],
    "lessthan": [
        ("", "fn", "find_unconstrained_less_than", "lessthan::find_unconstrained_less_than", T_LESSTHAN_FIND),
        ("", "fn", "update_components", "lessthan::update_components", T_LESSTHAN_COMPONENTS),
        ("", "fn", "update_inputs", "lessthan::update_inputs", T_LESSTHAN_INPUTS),
        ("", "struct", "VariableAccess", "lessthan::VariableAccess", T_LT_VA_STRUCT),
        ("impl VariableAccess", "fn", "new", "lessthan::VariableAccess::new", T_LT_VA_NEW),
        ("", "enum", "Component", "lessthan::Component", T_LT_COMPONENT_ENUM),
        ("impl Component", "fn", "less_than", "lessthan::Component::less_than", T_LT_C_LESS_THAN),
        ("impl Component", "fn", "num_2_bits", "lessthan::Component::num_2_bits", T_LT_C_NUM2BITS),
        ("", "enum", "ComponentInput", "lessthan::ComponentInput", T_LT_INPUT_ENUM),
        ("impl ComponentInput", "fn", "less_than", "lessthan::ComponentInput::less_than", T_LT_I_LESS_THAN),
        ("impl ComponentInput", "fn", "num_2_bits", "lessthan::ComponentInput::num_2_bits", T_LT_I_NUM2BITS),
        ("", "struct", "ConstraintData", "lessthan::ConstraintData", T_LT_CONSTRAINT_DATA),
    ],
    "constants": [
        ("", "enum", "Curve", "constants::Curve", T_ENUM_CURVE),
        ("impl Curve", "fn", "prime", "constants::Curve::prime", T_CURVE_PRIME),
        ("impl FromStr for Curve", "fn", "from_str", "constants::Curve::from_str", T_FROM_STR),
        ("", "struct", "UsefulConstants", "constants::UsefulConstants", T_UC_STRUCT),
        ("impl UsefulConstants", "fn", "new", "constants::UsefulConstants::new", T_UC_NEW),
        ("impl UsefulConstants", "fn", "curve", "constants::UsefulConstants::curve", T_UC_CURVE),
        ("impl UsefulConstants", "fn", "prime", "constants::UsefulConstants::prime", T_UC_PRIME),
        ("impl UsefulConstants", "fn", "prime_size", "constants::UsefulConstants::prime_size", T_UC_PRIME_SIZE),
    ],
}

# The inventory of each file outside #[cfg(test)] modules: (container, header).
INVENTORY = {
    "bn254": [
        ("", "use std :: collections :: HashSet"),
        ("", "use log :: debug"),
        ("", "use program_structure :: cfg :: Cfg"),
        ("", "use program_structure :: constants :: Curve"),
        ("", "use program_structure :: ir :: { AssignOp , Expression , Meta , Statement }"),
        ("", "use program_structure :: report :: { Report , ReportCollection }"),
        ("", "use program_structure :: report_code :: ReportCode"),
        ("", "use program_structure :: file_definition :: { FileLocation , FileID }"),
        ("", "const PROBLEMATIC_GOLDILOCK_TEMPLATES"),
        ("", "const PROBLEMATIC_BLS12_381_TEMPLATES"),
        ("", "pub struct Bn254SpecificCircuitWarning"),
        ("", "impl Bn254SpecificCircuitWarning"),
        ("impl Bn254SpecificCircuitWarning", "pub fn into_report"),
        ("", "pub fn find_bn254_specific_circuits"),
        ("", "fn visit_statement"),
        ("", "fn build_report"),
    ],
    "nonstrict": [
        ("", "use log :: debug"),
        ("", "use num_bigint :: BigInt"),
        ("", "use program_structure :: cfg :: { Cfg , DefinitionType }"),
        ("", "use program_structure :: constants :: Curve"),
        ("", "use program_structure :: report_code :: ReportCode"),
        ("", "use program_structure :: report :: { Report , ReportCollection }"),
        ("", "use program_structure :: file_definition :: { FileID , FileLocation }"),
        ("", "use program_structure :: ir :: value_meta :: { ValueMeta , ValueReduction }"),
        ("", "use program_structure :: ir :: *"),
        ("", "pub enum NonStrictBinaryConversionWarning"),
        ("", "impl NonStrictBinaryConversionWarning"),
        ("impl NonStrictBinaryConversionWarning", "pub fn into_report"),
        ("", "pub fn find_nonstrict_binary_conversion"),
        ("", "fn visit_statement"),
        ("", "fn build_num2bits"),
        ("", "fn build_bits2num"),
    ],
    "lessthan": [
        ("", "use std :: collections :: HashMap"),
        ("", "use std :: fmt"),
        ("", "use log :: { debug , trace }"),
        ("", "use num_bigint :: BigInt"),
        ("", "use program_structure :: cfg :: Cfg"),
        ("", "use program_structure :: ir :: value_meta :: { ValueMeta , ValueReduction }"),
        ("", "use program_structure :: report_code :: ReportCode"),
        ("", "use program_structure :: report :: { Report , ReportCollection }"),
        ("", "use program_structure :: ir :: *"),
        ("", "pub struct UnconstrainedLessThanWarning"),
        ("", "impl UnconstrainedLessThanWarning"),
        ("impl UnconstrainedLessThanWarning", "fn primary_meta"),
        ("impl UnconstrainedLessThanWarning", "pub fn into_report"),
        ("", "# [ derive ( Eq , PartialEq , Hash ) ] struct VariableAccess"),
        ("", "impl VariableAccess"),
        ("impl VariableAccess", "fn new"),
        ("", "enum Component"),
        ("", "impl Component"),
        ("impl Component", "fn less_than"),
        ("impl Component", "fn num_2_bits"),
        ("", "enum ComponentInput"),
        ("", "impl ComponentInput"),
        ("impl ComponentInput", "fn less_than"),
        ("impl ComponentInput", "fn num_2_bits"),
        ("", "# [ derive ( Default ) ] struct ConstraintData"),
        ("", "pub fn find_unconstrained_less_than"),
        ("", "fn update_components"),
        ("", "fn update_inputs"),
        ("", "# [ must_use ] fn build_report"),
        ("", "# [ must_use ] fn vec_to_display"),
    ],
    "constants": [
        ("", "use anyhow :: { anyhow , Error }"),
        ("", "use num_bigint :: BigInt"),
        ("", "use std :: fmt"),
        ("", "use std :: str :: FromStr"),
        ("", "# [ derive ( Default , Clone , PartialEq , Eq ) ] pub enum Curve"),
        ("", "impl fmt :: Display for Curve"),
        ("impl fmt :: Display for Curve", "fn fmt"),
        ("", "impl fmt :: Debug for Curve"),
        ("impl fmt :: Debug for Curve", "fn fmt"),
        ("", "impl Curve"),
        ("impl Curve", "fn prime"),
        ("", "impl FromStr for Curve"),
        ("impl FromStr for Curve", "type Err"),
        ("impl FromStr for Curve", "fn from_str"),
        ("", "# [ derive ( Clone ) ] pub struct UsefulConstants"),
        ("", "impl UsefulConstants"),
        ("impl UsefulConstants", "pub fn new"),
        ("impl UsefulConstants", "pub fn curve"),
        ("impl UsefulConstants", "pub fn prime"),
        ("impl UsefulConstants", "pub fn prime_size"),
    ],
}


# cli/src/main.rs + program_analysis/src/config.rs ---------------------------------
# the `curve` field of `struct Cli` with its attribute (doc comments are not
# tokens); the default is either the const of config.rs or a string literal
T_CLI_CURVE_FIELD = r'''
#[clap(short = 'c', long = "curve", name = "NAME",
       default_value = $(viaconst config::DEFAULT_CURVE $) $(lit $str:v $))]
curve: Curve
'''
T_CONFIG_DEFAULT_CURVE = r'''
const DEFAULT_CURVE: &str = $str:v;
'''
CLI_LABELS = ("cli::Cli::curve", "config::DEFAULT_CURVE")


def _fields(toks, lo, hi):
    """The token ranges of the fields of a braced struct toks[lo:hi] (split at the
    commas of nesting depth 0 inside the braces)."""
    i = lo
    while i < hi and toks[i] != ("op", "{"):
        i += 1
    end = _close(toks, i)
    out, start, j = [], i + 1, i + 1
    while j < end:
        k, v = toks[j]
        if k == "op" and v in ("(", "[", "{"):
            j = _close(toks, j) + 1
            continue
        if k == "op" and v == ",":
            out.append((start, j))
            start = j + 1
        j += 1
    if start < end:
        out.append((start, end))
    return out


def read_cli(main_text, config_text):
    """Strict reading of the two CLI items the default curve comes from.
    -> {"shape", "env", "problems", "default_curve"}; default_curve = the string
    the parser of `--curve` receives when the option is absent ("" = not recognised)."""
    shape, envs, problems = [], {}, []
    default = ""
    # --- struct Cli, field `curve` ------------------------------------------------
    label = CLI_LABELS[0]
    env = None
    try:
        toks = tokens(main_text)
        structs = [(lo, hi) for c, h, k, nm, lo, hi in scan_items(toks) if (c, k, nm) == ("", "struct", "Cli")]
        if len(structs) != 1:
            problems.append("%s: %d items `struct Cli` in cli/src/main.rs, expected one" % (label, len(structs)))
        else:
            fl = [(a, b) for a, b in _fields(toks, *structs[0]) if b - a >= 3 and toks[b - 3:b - 1] == [("id", "curve"), ("op", ":")]]
            typed = [(a, b) for a, b in _fields(toks, *structs[0]) if toks[b - 1] == ("id", "Curve")]
            if len(fl) != 1 or typed != fl:
                problems.append("%s: struct Cli has %d fields named `curve` and %d of type Curve, expected the same single field"
                                % (label, len(fl), len(typed)))
            else:
                env, why = match_template(T_CLI_CURVE_FIELD, toks[fl[0][0]:fl[0][1]])
                if env is None:
                    problems.append("%s does not have the anchored shape: %s" % (label, why))
                elif len(env["viaconst"]) + len(env["lit"]) != 1:
                    problems.append("%s: default_value is neither config::DEFAULT_CURVE nor one string literal" % label)
                    env = None
    except (ValueError, IndexError) as e:
        problems.append("%s: cli/src/main.rs could not be cut into items: %r" % (label, e))
        env = None
    shape.append((label, env is not None))
    if env is not None:
        envs[label] = env
    # --- const DEFAULT_CURVE -------------------------------------------------------
    label = CLI_LABELS[1]
    cenv = None
    try:
        toks = tokens(config_text)
        found = [(lo, hi) for c, h, k, nm, lo, hi in scan_items(toks) if (c, k, nm) == ("", "const", "DEFAULT_CURVE")]
        if len(found) != 1:
            problems.append("%s: %d items `const DEFAULT_CURVE` in program_analysis/src/config.rs, expected one" % (label, len(found)))
        else:
            cenv, why = match_template(T_CONFIG_DEFAULT_CURVE, toks[found[0][0]:found[0][1]])
            if cenv is None:
                problems.append("%s does not have the anchored shape: %s" % (label, why))
    except (ValueError, IndexError) as e:
        problems.append("%s: program_analysis/src/config.rs could not be cut into items: %r" % (label, e))
        cenv = None
    shape.append((label, cenv is not None))
    if cenv is not None:
        envs[label] = cenv
    if env is not None:
        if env["lit"]:
            default = env["lit"][0]["v"]
        elif cenv is not None:
            default = cenv["v"]
    return {"shape": shape, "env": envs, "problems": problems, "default_curve": default}


def _novis(header):
    """An item header without its visibility qualifier."""
    return re.sub(r"\bpub (\( (crate|super|self) \) )?", "", header)


# Local variables of the anchored functions (third audit): renamed consistently, the function is the same program.
# Only names bound by `let`, by a parameter or by an explicit `field: name` pattern - never a field shorthand
# (`rhe`, `args`, `value`, `access`, `var`, `meta`), whose name is the field's.
LOCALS = {
    "bn254::find_bn254_specific_circuits": ("problematic_templates", "reports", "basic_block", "stmt", "cfg"),
    "bn254::visit_statement": ("stmt", "problematic_templates", "reports", "var_meta", "component_meta", "component_name"),
    "nonstrict::find_nonstrict_binary_conversion": ("cfg", "reports", "basic_block", "stmt"),
    "nonstrict::visit_statement": ("stmt", "prime_size", "reports", "var_meta", "component_meta", "component_name", "arg"),
    "lessthan::find_unconstrained_less_than": ("cfg", "components", "inputs", "constraints", "basic_block", "stmt", "input",
                                               "reports", "max_value", "data", "is_positive"),
    "lessthan::update_components": ("stmt", "components", "component_name", "component", "keep_old", "old", "old_size", "new_size"),
    "lessthan::update_inputs": ("stmt", "components", "inputs", "component_access", "signal_access", "index_access", "component",
                                "signal_name"),
    "constants::Curve::from_str": ("curve",),
}


def read_file(key, text):
    """Strict reading of one source file.
    -> {"shape": [(label, matched)], "env": {label: bindings}, "problems": [...]}"""
    toks = tokens(text)
    shape, envs, problems = [], {}, []
    try:
        items = scan_items(toks)
    except (ValueError, IndexError) as e:
        problems.append("%s: the file could not be cut into items: %r" % (key, e))
        items = []
    # Third audit - the inventory is compared up to what cannot change the anchored behaviour: visibility
    # (`pub`, `pub(crate)`) is dropped, the ORDER of the items does not matter, and NEW free items (functions,
    # consts, types, `use` declarations) are accepted: every anchored body matches its template token for
    # token, so none of them can call a new helper, and a new import cannot shadow an explicit one that is still
    # there.  What must hold: every recorded item is present exactly once, and there is no new `impl` /
    # `trait` / `mod` block (a hand-written `PartialEq for Curve`, `Hash for VariableAccess`), no new item inside an
    # anchored impl, no unparsed item.
    inv = [(c, _novis(h), k) for c, h, k, _, _, _ in items]
    want = [(c, _novis(h)) for c, h in INVENTORY[key]]
    have = [(c, h) for c, h, _ in inv]
    missing = [x for x in want if have.count(x) != want.count(x)]
    extra = [(c, h) for c, h, k in inv if (c, h) not in want and (c != "" or k not in ("fn", "const", "static", "struct", "enum", "type", "use"))]
    tolerated = [(c, h) for c, h, k in inv if (c, h) not in want and (c, h) not in extra]
    ok = not missing and not extra
    shape.append(("%s::inventory" % key, ok))
    if not ok:
        what = []
        if extra:
            what.append("new: " + "; ".join("%s%s" % (c + " / " if c else "", h) for c, h in extra[:4]))
        if missing:
            what.append("gone or duplicated: " + "; ".join("%s%s" % (c + " / " if c else "", h) for c, h in missing[:4]))
        problems.append("%s: the items of the file (impl headers, functions, consts, types with their attributes) changed - %s"
                        % (key, ", ".join(what)))
    anchors = list(ANCHORS[key])
    if key == "bn254":
        n = 0
        for c, h, kind, name, lo, hi in items:
            if kind == "const":
                anchors.append((c, "const", name, "bn254::const#%d" % n, T_CONST_ARRAY))
                n += 1
    for cont, kind, name, label, template in anchors:
        found = [(lo, hi) for c, h, k, nm, lo, hi in items if (c, k, nm) == (cont, kind, name)]
        if len(found) != 1:
            shape.append((label, False))
            problems.append("%s: %d items `%s %s`%s, expected one" % (label, len(found), kind, name, " in " + cont if cont else ""))
            continue
        lo, hi = found[0]
        env, why = match_template(template, toks[lo:hi], locals=LOCALS.get(label, ()))
        shape.append((label, env is not None))
        if env is None:
            problems.append("%s does not have the anchored shape: %s" % (label, why))
        else:
            envs[label] = env
    return {"shape": shape, "env": envs, "problems": problems, "tolerated_new_items": tolerated}
