"""C07 — degree claims are sound. Obligations over the regenerated degree
tables (coq/gen/DegreeTable.v, produced by executing degree_meta.rs) plus the
propagation correspondence and the finite-difference oracle."""
import common
import degtable
import propeng


def gen(ctx):
    degtable.gen()


def run(ctx, proofs):
    r = propeng.run(ctx, proofs, [("-", "-"), ("-", "2")], check_vals=False, check_degs=True,
                    n_quick=700, n_thorough=12000, props=("C07", "C20"), check_advice=True)
    propeng.verdict(ctx, proofs, r, kinds=("degree", "advice"), known_classes=("cs0013-sum-of-products",),
                    extra_cov={"open_statements": [
                        "WHAT THE GRAPH-LEVEL THEOREM IS ABOUT: the lock-step family semantics Spec.DegSem (one statement fires for all valuations, no program counter; "
                        "`pick_ok`: only a denotable, varying condition named by `decides` lets the phi choice depend on the valuation - an assumption of the relation). "
                        "Concrete per-valuation runs (Spec.DegRun) are proved represented when all valuations follow the same path of blocks "
                        "(C07_same_path_runs_represented, C07_concrete_runs_claims_true).",
                        "PROVED for loop-free graphs (C07_loop_free_graph_claims_true; decidable hypotheses djust_cfg, SsaCheck.infos_ok, DegGraph.deg_graph_ok, DegGraph.loop_free_ok, evaluated per "
                        "graph: dominator_table_hypotheses.graphs_covered_by_loop_free_theorem; plus `same edge lists as the lifted skeleton`, compared by C13's engine, not here): "
                        "families of concrete runs whose paths DIFFER are represented, `picks_decided` derived.",
                        "PROVED under a family assumption (proof round 4, C07_loops_runs_represented / C07_loops_runs_claims_true): diverging runs in graphs WITH loops whose ascending "
                        "segments start at the same blocks (same header entries, different arms inside) are represented on the cells that are still current at the end of the runs; "
                        "decidable graph hypotheses SsaCheck.infos_ok, DegGraph.graph_consistent, DegLoops.loops_ok (evaluated per graph by this check, conjunct by conjunct, through the `deggraph` command "
                        "of the ir driver; an unmet one is a violation naming it). The count dominator_table_hypotheses.graphs_meeting_the_graph_hypotheses_of_the_loops_theorem says ONLY that these graph-side hypotheses are met: "
                        "the family assumption `picks_decided_sched` is evaluated on NO case, so it is not coverage by the theorem. "
                        "OPEN: deriving `picks_decided_sched` from the graph as the loop-free theorem does - FALSE without a side condition for a shape real lifting produces (fourth audit: a header with two "
                        "back edges merging three variables, the parting condition reading one merged by an earlier phi than another); restated with the side condition "
                        "Proofs.DegRunLoops.deciders_avoid_earlier_phis in C07_loops_picks_decided_full_statement; the reviewer's two-variable witness satisfies every hypothesis now "
                        "(C07_header_two_back_edges_example). Also open: claims on mid-block expressions whose operands are re-assigned later in the same block.",
                        "NO PROGRESS THEOREM: every run theorem assumes that all valuations of the family have completing runs and concludes only about expressions that have a value in every run's "
                        "final store (sub-family reading: a claim inside a branch is covered through the families that all take the branch).",
                        "OPEN signal-dependent trip counts: outside the lock-step relation (no store represents the family; full statement "
                        "Proofs.DegRunLoops.C07_valuation_dependent_trip_counts_full_statement). PROVED part (C07_varying_decider_phi_no_low_claim): a phi of a join with a deciding condition "
                        "that varies with the valuation gets no claim or upper end NonQuadratic (a fact about the lock-step relation; nothing ties a concrete run to such a store); what speaks for the real tool there is the validator + the oracle ONLY. The oracle judges such programs per iteration context: inside such a loop a claim is compared on the runs that are in the "
                        "same iteration (degree_oracle.claims_judged_on_signal_dependent_paths; contexts reached by fewer than d + 2 of the five runs are not judged: "
                        "degree_oracle.discarded_signal_dependent_paths); behind the loop all five runs are compared again.",
                        "OPEN the lifted-skeleton edge hypothesis for the REAL graph: C07_chain_split_is_named_by_decides composes the mirrors (lifting, SSA, propagation); that "
                        "the mirrors are the implementation is the per-run correspondence (C13, C14, here).",
                        "The validator DegJustify.djust_cfg demands equality of every claimed range with the table range (deg_claim_is): it does not accept every SOUND claim; a more "
                        "conservative implementation is reported as `VALIDATOR REJECTS` without a failing input.",
                        "No theorem: the `consequently` clause about the CS0013 advice (C08 evaluates it on the implementation's own degrees); lower ends of ranges."],
                               "regenerated": "coq/gen/DegreeTable.v: 20 infix x 16 degree pairs, 20 x 256 range pairs, 3 prefix operators, "
                                              "inf, is_constant/linear/quadratic, order; re-derived by executing the current degree_meta.rs"})
    ctx.assumptions.append("polynomial degree is judged by finite differences along lines in signal space (the observable the property names); "
                           "parameters and literals are constants, function parameters are treated as indeterminates")


def replay(ctx, rep):
    return propeng.replay(ctx, rep)
