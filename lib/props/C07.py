"""C07 — degree claims are sound. Obligations over the regenerated degree
tables (coq/gen/DegreeTable.v, produced by executing degree_meta.rs) plus the
propagation correspondence and the finite-difference oracle."""
import common
import degtable
import propeng


def gen(ctx):
    degtable.gen()


def run(ctx, proofs):
    r = propeng.run(ctx, proofs, [("-", "-"), ("-", "2")], check_vals=False, check_degs=True,
                    n_quick=700, n_thorough=12000, props=("C07", "C20"))
    propeng.verdict(ctx, proofs, r, kinds=("degree",), known_classes=(),
                    extra_cov={"open_statements": [
                        "WHAT THE GRAPH-LEVEL THEOREM IS ABOUT: the lock-step family semantics Spec.DegSem (one statement fires for all valuations, no program counter; "
                        "`pick_ok`: only a denotable, varying condition named by `decides` lets the phi choice depend on the valuation - an assumption of the relation). "
                        "Concrete per-valuation runs (Spec.DegRun) are proved represented when all valuations follow the same path of blocks "
                        "(C07_same_path_runs_represented, C07_concrete_runs_claims_true).",
                        "OPEN C07_diverging_runs_represented: a family of concrete runs whose paths differ between valuations (a signal-dependent if/else re-joining at a phi) "
                        "is represented by a reachable store with the phi choice = the edge taken; needs (i) a firing schedule covering all paths, (ii) two runs that enter a join "
                        "by different edges differ on a DENOTABLE decider (graph part proved for graphs with the edge lists of a lifted skeleton: C07_lifted_split_is_named_by_decides; "
                        "audited on concrete runs: control_dependence_audit), (iii) the store at the phi step holds the operands of the decider's last evaluation.",
                        "OPEN signal-dependent trip counts: outside the lock-step relation (no store represents the family); soundness is argued (header phis get no claim or upper "
                        "end NonQuadratic), not proved. The oracle judges such programs per iteration context only: a claim is compared on the runs that reach the node after the same "
                        "sequence of loop-header entries (degree_oracle.claims_judged_on_signal_dependent_paths), contexts reached by fewer than d + 2 of the five runs are not "
                        "judged (degree_oracle.discarded_signal_dependent_paths).",
                        "OPEN SSA conversion keeps blocks and edges (so that `decides` on the SSA graph is control dependence of the lifted skeleton): observed by the C14 "
                        "correspondence (erasure validator on every graph), not composed into one theorem with lifting and propagation.",
                        "The validator DegJustify.djust_cfg demands equality of every claimed range with the table range (deg_claim_is): it does not accept every SOUND claim; a more "
                        "conservative implementation is reported as `VALIDATOR REJECTS` without a failing input.",
                        "No theorem: the `consequently` clause about the CS0013 advice (C08 evaluates it on the implementation's own degrees); lower ends of ranges."],
                               "regenerated": "coq/gen/DegreeTable.v: 20 infix x 16 degree pairs, 20 x 256 range pairs, 3 prefix operators, "
                                              "inf, is_constant/linear/quadratic, order; re-derived by executing the current degree_meta.rs"})
    ctx.assumptions.append("polynomial degree is judged by finite differences along lines in signal space (the observable the property names); "
                           "parameters and literals are constants, function parameters are treated as indeterminates")


def replay(ctx, rep):
    return propeng.replay(ctx, rep)
