"""C07 — degree claims are sound. Obligations over the regenerated degree
tables (coq/gen/DegreeTable.v, produced by executing degree_meta.rs) plus the
propagation correspondence and the finite-difference oracle."""
import common
import degtable
import propeng


def gen(ctx):
    degtable.gen()


def run(ctx, proofs):
    r = propeng.run(ctx, proofs, [("-", "-"), ("-", "2")], check_vals=False, check_degs=True,
                    n_quick=700, n_thorough=12000, props=("C07", "C20"))
    propeng.verdict(ctx, proofs, r, kinds=("degree",), known_classes=(),
                    extra_cov={"regenerated": "coq/gen/DegreeTable.v: 20 infix x 16 degree pairs, 20 x 256 range pairs, 3 prefix operators, "
                                              "inf, is_constant/linear/quadratic, order; re-derived by executing the current degree_meta.rs"})
    ctx.assumptions.append("polynomial degree is judged by finite differences along lines in signal space (the observable the property names); "
                           "parameters and literals are constants, function parameters are treated as indeterminates")


def replay(ctx, rep):
    return propeng.replay(ctx, rep)
