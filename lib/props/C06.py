"""C06 — constant propagation is sound."""
import common
import degtable
import propeng


def gen(ctx):
    degtable.gen()


def run(ctx, proofs):
    r = propeng.run(ctx, proofs, [("-", "-")], check_vals=True, check_degs=False,
                    n_quick=1000, n_thorough=20000, props=("C06", "C20"))
    propeng.verdict(ctx, proofs, r, kinds=("value", "finding"), known_classes=(),
                    extra_cov={"open_statements": []})


def replay(ctx, rep):
    return propeng.replay(ctx, rep)
