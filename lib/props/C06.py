"""C06 — constant propagation is sound."""
import os
import re
import common
import degtable
import proggen
import propeng
import sexp


def gen(ctx):
    degtable.gen()


def run(ctx, proofs):
    r = propeng.run(ctx, proofs, [("-", "-")], check_vals=True, check_degs=False,
                    n_quick=1000, n_thorough=20000, props=("C06", "C20"), extra_progs=e2e_functions(ctx))
    # the hypotheses on the prime of every C06 theorem (prime p, 2 < p, Z.log2 p < 2^64), evaluated for the three primes
    import random as _random
    def _probably_prime(n, rounds=40):
        if n < 4:
            return n in (2, 3)
        if n % 2 == 0:
            return False
        d, s_ = n - 1, 0
        while d % 2 == 0:
            d //= 2
            s_ += 1
        rr = _random.Random(n % 1000003)
        for _ in range(rounds):
            a = rr.randrange(2, n - 1)
            x = pow(a, d, n)
            if x in (1, n - 1):
                continue
            for _ in range(s_ - 1):
                x = x * x % n
                if x == n - 1:
                    break
            else:
                return False
        return True
    prime_hyp = {c: {"2 < p": q > 2, "Z.log2 p < 2^64": q.bit_length() - 1 < 2 ** 64, "prime p (Miller-Rabin, 40 rounds: not a proof)": _probably_prime(q)}
                 for c, q in proggen.PRIMES.items()}
    if not all(all(v.values()) for v in prime_hyp.values()):
        ctx.violation("a hypothesis on the prime of the C06 theorems is not met: %s" % prime_hyp, {"broken": "hypotheses prime p / 2 < p / Z.log2 p < 2^64", "evaluated": prime_hyp}, no_input=True)
    e2e_cov, e2e_failing = e2e_curves(ctx)
    r["failing"] += e2e_failing
    propeng.verdict(ctx, proofs, r, kinds=("value", "finding"), known_classes=(),
                    extra_cov={"open_statements": [
                        "not covered here: how the analysis RUNNER obtains the graph of a called function (the `ir` harness calls into_cfg with the curve itself, so a runner that "
                        "lifts cached TEMPLATES with Curve::default() is invisible to this check; cached functions are seen by the end-to-end stage); CS0010 as a finding (C11 has the threshold)",
                        "Spec.SsaRun.run_path has no rule for a phi reached along an edge that carries no version: C06_claims_true_along_paths speaks about paths on which every phi finds a "
                        "versioned argument; the 256-bit complement is common to interpreter, specification, mirror and Rust code - whether Circom's runtime agrees is not decided here",
                        "the end-to-end stage compares the CLI's constant-condition reports under each --curve on closed functions only (the runner's function cache); "
                        "templates, includes and the other findings are the business of the end-to-end engines",
                        "the check uses the fixpoint budget only: a change of the ORDER in which facts are found is seen by C20 (per-budget mirror equality), not here"],
                               "end_to_end_constant_conditions_per_curve": e2e_cov, "hypotheses_on_the_prime": prime_hyp})
    if e2e_cov["reports_compared"] < 6 or not e2e_cov["always_true"] or not e2e_cov["always_false"]:
        ctx.violation("degenerate end-to-end stage: %d constant-condition reports compared (always true %d, always false %d)"
                      % (e2e_cov["reports_compared"], e2e_cov["always_true"], e2e_cov["always_false"]), {"broken": "end-to-end curve stage of C06", "coverage": e2e_cov}, no_input=True)


E2E_FUNS = {}


def e2e_functions(ctx):
    """Closed functions per curve for the end-to-end stage; they also join the main stage (validator, mirror, interpreter)."""
    rng = ctx.rng
    E2E_FUNS.clear()
    for curve in propeng.CURVES:
        p = proggen.PRIMES[curve]
        nb = p.bit_length()
        funs = ["function f() { var x = %d; if (x == 0) { return 1; } return 2; }" % p,
                "function f() { var x = %d; var y = x + 1; if (y == 1) { return 1; } if (x != 0) { return 3; } return 2; }" % p,
                "function f() { var x = %d; if (x == 0) { return 1; } return 2; }" % proggen.PRIMES["GOLDILOCKS" if curve != "GOLDILOCKS" else "BN254"],
                # literals with as many bits as the prime (not reduced when read), parity and bit operators
                "function f() { var x = %d; if ((x & 1) == 1) { return 1; } if ((x | 1) == 3) { return 4; } return 2; }" % (p + 1),
                "function f() { var x = 0x%x; if ((x & 1) == 0) { return 1; } if (x >> 1) { return 3; } return 2; }" % ((1 << nb) - 1),
                # field-valued conditions
                "function f() { var x = %d; if (x - x) { return 1; } if (x) { return 3; } if (0) { return 5; } return 2; }" % (p - 1)]
        tries = 0
        while len(funs) < (18 if ctx.tier == "quick" else 60) and tries < 4000:
            tries += 1
            q = proggen.targeted(rng, curve)
            if q.startswith("function f() {") and "\n" not in q:
                funs.append(q)
        E2E_FUNS[curve] = funs
    return [(curve, q, "e2e-function") for curve, fs in E2E_FUNS.items() for q in fs]


def e2e_curves(ctx):
    """End-to-end stage (third audit, B C06 (i)): the constant-condition reports of the real CLI, run with `--curve X` for
    each of the three curves, on files of closed functions (boundary constants of THAT curve, every operator), against the
    reports the `ir` harness obtains for each function lifted with that curve (which the main stage compares with the
    mirror of the pass on validated claims). The runner lifts functions through its cache: a runner that lifts them with
    the default curve answers `always false` for `var x = <goldilocks prime>; if (x == 0)` under --curve goldilocks."""
    import e2e
    H = common.build_harness("ir")
    cli = common.build_cli() or common.CLI_BIN
    rng = ctx.rng
    out = {"curves": {}, "functions": 0, "reports_compared": 0, "always_true": 0, "always_false": 0}
    failing = []
    d = e2e.scratch_dir("C06-curves") if hasattr(e2e, "scratch_dir") else "/tmp"
    for curve in propeng.CURVES:
        p = proggen.PRIMES[curve]
        funs = E2E_FUNS.get(curve) or []
        lifted = propeng.lift_all(H, [(curve, q, "e2e") for q in funs], [("-", "-")])
        keep, want = [], {}
        for i, q in enumerate(funs):
            o = lifted[(i, "-", "-")]
            if not o.startswith("(ok "):
                continue
            x = sexp.parse(o)
            line = len(keep) + 2
            keep.append(q.replace("function f()", "function f%d()" % len(keep), 1))
            want[line] = sorted((re.findall(r"\b(true|false)\b", sexp.unhex(y[2]).lower()) or [sexp.unhex(y[2])])[-1] for y in x[5][1:])
        path = os.path.join(d, "curve_%s.circom" % curve.lower())
        with open(path, "w") as fh:
            fh.write("pragma circom 2.0.0;\n" + "\n".join(keep) + "\ntemplate T() { signal input a; signal output b; b <== a + %s; }\n"
                     % " + ".join("f%d()" % j for j in range(len(keep))))
        rc, so, se = e2e.run_cli(cli, [path], e2e.cli_args(level="info", curve=curve.lower()), timeout=300)
        got = {}
        for blk in so.split("warning: Constant branching statement condition found.")[1:]:
            m = re.search(r":(\d+):(\d+)\n", blk)
            # the label line (behind the carets); only the truth value it names is compared, not the wording
            lm = re.search(r"\n[^\n\w]*?\s\^+ ([^\n]*)", blk)          # the line of carets under the source line, then the label
            t = re.search(r"\b(true|false)\b", lm.group(1).lower()) if lm else None
            if m and not t:
                out["labels_not_understood"] = out.get("labels_not_understood", 0) + 1
            if m and t:
                got.setdefault(int(m.group(1)), []).append(t.group(1))
        out["functions"] += len(keep)
        out["curves"][curve] = {"functions": len(keep), "cli_exit": rc, "reports": sum(len(v) for v in got.values())}
        for line in sorted(set(want) | set(got)):
            w, g = want.get(line, []), sorted(got.get(line, []))
            if line - 2 >= len(keep):
                continue          # the template line
            out["reports_compared"] += len(w)
            out["always_true"] += sum(1 for y in w if y == "true")
            out["always_false"] += sum(1 for y in w if y == "false")
            if w != g:
                failing.append({"input": "pragma circom 2.0.0;\n" + keep[line - 2] + "\ntemplate T() { signal input a; signal output b; b <== a + f%d(); }\n" % (line - 2),
                                "curve": curve, "cli_args": ["--curve", curve.lower(), "--level", "info"], "kind": "finding", "classes": [],
                                "impl": "the CLI with --curve %s reports %s for this function" % (curve.lower(), g or "no constant condition"),
                                "spec": "lifted with that curve its validated value claims give %s" % (w or "no constant condition")})
    return out, failing


def replay(ctx, rep):
    if rep.get("cli_args"):
        import e2e
        cli = common.build_cli() or common.CLI_BIN
        d = e2e.scratch_dir("C06-replay")
        path = os.path.join(d, "replay.circom")
        open(path, "w").write(rep["input"])
        rc, so, se = e2e.run_cli(cli, [path], rep["cli_args"], timeout=300)
        print(so[:3000])
        print("expected:", rep.get("spec"))
        return 1
    return propeng.replay(ctx, rep)
