#!/usr/bin/env python3
"""Assembles MANIFEST.json from manifest.d/*.json (one check entry per claimed
property) and lists every other property under not_applicable."""
import json
import os
import subprocess

V = os.path.dirname(os.path.dirname(os.path.abspath(__file__)))
props = [json.loads(l) for l in open(os.path.join(V, "properties.jsonl"))]
checks = []
ready = set(open(os.path.join(V, "manifest.d", "ready.txt")).read().split())
for f in sorted(os.listdir(os.path.join(V, "manifest.d"))):
    if f.endswith(".json") and f.startswith("C") and f[:-5] in ready:
        checks.append(json.load(open(os.path.join(V, "manifest.d", f))))
claimed = {c["property_id"] for c in checks}
na_reasons = {}
p = os.path.join(V, "manifest.d", "not_applicable.json")
if os.path.exists(p):
    na_reasons = json.load(open(p))
hooks = subprocess.run(["git", "-C", "/repo", "log", "--format=%H %s"], capture_output=True, text=True).stdout
hook_commits = [l.split()[0] for l in hooks.splitlines() if l.split(" ", 1)[1].startswith("verif hook")]
m = {
    "version": 1,
    "setup_cmd": "./check --setup",
    "hooks": {
        "guard": "circomspect_verif",
        "enable": "RUSTFLAGS=\"--cfg circomspect_verif\" (set by lib/common.py for every cargo build of the harness and the CLI)",
        "baseline_off_cmd": "cd /repo && cargo test --workspace --no-fail-fast --offline",
        "source_commits": hook_commits,
        "add_only": True,
    },
    "engines": json.load(open(os.path.join(V, "manifest.d", "engines.json"))),
    "checks": checks,
    "notes": "Machine-checked proof in Coq 8.16.1 over Gallina mirrors, tied to /repo by differential correspondence and regenerated tables; see DESIGN.md.",
    "not_applicable": [
        {"property_id": q["id"], "reason": na_reasons.get(q["id"], "check under construction (DESIGN.md §8 build order); not claimed yet")}
        for q in props if q["id"] not in claimed
    ],
}
json.dump(m, open(os.path.join(V, "MANIFEST.json"), "w"), indent=1)
print("claimed:", sorted(claimed))
