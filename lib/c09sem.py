"""C09: reference interpreter with perturbation — the violation-search oracle.

Runs a program of c09gen's AST (the *source* program: lexical scoping, Circom's
default value 0, no knowledge of the tool's CFG or SSA form) on one valuation of
the parameters and input signals and returns the list of effects the property
names:

  ("sig", name, index, value)     a value assigned to an input or output signal
  ("con", id, leaves, lhs, rhs)   a constraint (=== or <==) that mentions an input or output signal:
                                  directly, or through a local / intermediate signal whose current value
                                  was computed from one (data dependence, tracked per value);
                                  `leaves` are the values of all names the constraint reads
  ("assert", id, value)           an assertion
  ("ret", value)                  the return value (ends the run)
  ("dim", id, values)             the dimensions of a declaration
  ("br", id, bool)                a branch decision (if / while / for condition)

A perturbation replaces the value stored by one assignment statement (every time
it executes), or the value of one parameter, by a given value.

Semantic conventions (they are assumptions of the check, listed in the
evidence): every operator is total (the property speaks about evaluations that
happen: a perturbation that would make a *dead* computation fail is not an
effect) — an out-of-range array read yields 0, an out-of-range write is dropped,
a failing assert is an event and the run continues; `ext` is an uninterpreted
deterministic function; runs are cut after a step budget (400 statements)."""

P = 21888242871839275222246405745257275088548364400416034343698204186575808495617
HALF = P // 2


class Stop(Exception):
    pass


class Budget(Exception):
    pass


def sgn(v):
    return v - P if v > HALF else v


def binop(op, a, b):
    if op == "+":
        return (a + b) % P
    if op == "-":
        return (a - b) % P
    if op == "*":
        return (a * b) % P
    if op == "==":
        return int(a == b)
    if op == "!=":
        return int(a != b)
    if op == "<":
        return int(sgn(a) < sgn(b))
    if op == "<=":
        return int(sgn(a) <= sgn(b))
    if op == ">":
        return int(sgn(a) > sgn(b))
    if op == ">=":
        return int(sgn(a) >= sgn(b))
    if op == "&&":
        return int(a != 0 and b != 0)
    if op == "||":
        return int(a != 0 or b != 0)
    if op == ">>":
        return (a >> b) if b < 256 else 0
    if op == "&":
        return a & b
    raise ValueError(op)


class Run:
    def __init__(self, prog, params, inputs, perturb=None, budget=400):
        self.prog = prog
        self.scopes = [dict((p, (params[p] % P, False)) for p in prog["params"])]
        self.inputs = inputs
        self.sig = {}          # name -> (kind, value or list)
        self.events = []
        self.steps = 0
        self.budget = budget
        self.pid = None
        self.pval = None
        self.executed = set()
        if perturb is not None:
            if perturb[0] == "param":
                self.scopes[0][perturb[1]] = (perturb[2] % P, False)
            else:
                self.pid, self.pval = perturb[1], perturb[2] % P

    def go(self):
        """Runs the body; False if the step budget was exhausted."""
        try:
            self.scopes.append({})
            for s in self.prog["body"]:
                self.stmt(s)
            return True
        except Stop:
            return True
        except Budget:
            return False

    # ---- names ----
    def lookup(self, n):
        for sc in reversed(self.scopes):
            if n in sc:
                return sc
        return None

    def read(self, n):
        sc = self.lookup(n)
        if sc is not None:
            return sc[n]
        if n in self.sig:
            kind, val = self.sig[n]
            if kind != "mid":
                if isinstance(val, list):
                    return [(v, True) for v, _ in val]
                return (val[0], True)
            return val
        return (0, False)

    # ---- expressions: returns (value, depends-on-exported-signal) ----
    def ev(self, e, leaves):
        t = e[0]
        if t == "num":
            return (e[1] % P, False)
        if t == "var":
            v = self.read(e[1])
            if isinstance(v, list):
                # whole array used as a scalar: not generated; totalised
                v = v[0] if v else (0, False)
            if leaves is not None:
                leaves.append(v[0])
            return v
        if t == "idx":
            d = False
            arr = self.read(e[1])
            idx = []
            for i in e[2]:
                iv, idd = self.ev(i, leaves)
                d = d or idd
                idx.append(iv)
            if isinstance(arr, list):
                k = idx[0]
                v = arr[k] if k < len(arr) else (0, False)
            else:
                v = arr
            if leaves is not None:
                leaves.append(v[0])
            return (v[0], v[1] or d)
        if t == "bin":
            a = self.ev(e[2], leaves)
            b = self.ev(e[3], leaves)
            return (binop(e[1], a[0], b[0]), a[1] or b[1])
        if t == "un":
            a = self.ev(e[2], leaves)
            if e[1] == "-":
                return ((-a[0]) % P, a[1])
            return (int(a[0] == 0), a[1])
        if t == "tern":
            c = self.ev(e[1], leaves)
            a = self.ev(e[2], leaves)
            b = self.ev(e[3], leaves)
            r = a if c[0] != 0 else b
            return (r[0], r[1] or c[1])
        if t == "call":
            acc = 12345
            d = False
            for k, a in enumerate(e[2]):
                v = self.ev(a, leaves)
                acc = (acc * 1000003 + (k + 1) * v[0] + 7) % P
                d = d or v[1]
            return (acc, d)
        if t == "arr":
            return [self.ev(a, leaves) for a in e[1]]
        raise ValueError(t)

    def dims(self, st, ds):
        if ds:
            vals = tuple(self.ev(d, None)[0] for d in ds)
            self.events.append(("dim", st[-1]["id"], vals))
            return min(vals[0], 16)
        return None

    def tick(self):
        self.steps += 1
        if self.steps > self.budget:
            raise Budget()

    # ---- statements ----
    def block(self, ss):
        self.scopes.append({})
        try:
            for s in ss:
                self.stmt(s)
        finally:
            self.scopes.pop()

    def stored(self, st, val):
        """The value an assignment stores (perturbed if this is the flagged statement)."""
        if self.pid is not None and st[-1].get("id") == self.pid:
            if isinstance(val, list):
                return [(self.pval, d) for _, d in val]
            return (self.pval, val[1])
        return val

    def stmt(self, st):
        self.tick()
        t = st[0]
        self.executed.add(st[-1].get("id"))
        if t == "decl":
            ln = self.dims(st, st[2])
            if ln is not None:
                val = [(0, False)] * ln
                if st[3] is not None:
                    init = self.ev(st[3], None)
                    if isinstance(init, list):
                        init = self.stored(st, init)
                        val = (init + val)[:ln] if len(init) < ln else init[:ln]
                self.scopes[-1][st[1]] = list(val)
            else:
                if st[3] is not None:
                    v = self.ev(st[3], None)
                    if isinstance(v, list):
                        v = v[0] if v else (0, False)
                    self.scopes[-1][st[1]] = self.stored(st, v)
                else:
                    self.scopes[-1][st[1]] = (0, False)
        elif t == "sigdecl":
            ln = self.dims(st, st[3])
            kind, name = st[1], st[2]
            if kind == "input":
                iv = self.inputs.get(name, 0)
                if ln is not None:
                    iv = iv if isinstance(iv, list) else [iv]
                    val = [((iv[k] if k < len(iv) else 0) % P, True) for k in range(ln)]
                else:
                    val = ((iv[0] if isinstance(iv, list) else iv) % P, True)
            else:
                val = [(0, False)] * ln if ln is not None else (0, False)
            self.sig[name] = (kind, val)
        elif t == "assign" or t == "incr":
            name = st[1]
            sc = self.lookup(name)
            if sc is None:
                sc = self.scopes[-1]
                sc[name] = (0, False)
            if t == "incr":
                idx, op, rhs = [], "+=" if st[2] == "++" else "-=", (1, False)
            else:
                idx, op = st[2], st[3]
                rhs = self.ev(st[4], None)
                if isinstance(rhs, list):
                    rhs = rhs[0] if rhs else (0, False)
            cur = sc[name]
            if idx:
                iv = self.ev(idx[0], None)
                if not isinstance(cur, list):
                    cur = [cur]
                k = iv[0]
                old = cur[k] if k < len(cur) else (0, False)
            else:
                old = cur if not isinstance(cur, list) else (cur[0] if cur else (0, False))
            if op == "=":
                new = rhs
            else:
                new = (binop(op[0], old[0], rhs[0]), old[1] or rhs[1])
            new = self.stored(st, new)
            if idx:
                new = (new[0], new[1] or iv[1])
                if k < len(cur):
                    cur = list(cur)
                    cur[k] = new
                sc[name] = cur
            else:
                sc[name] = new
        elif t == "sigassign":
            name, idx, op = st[1], st[2], st[3]
            leaves = []
            rhs = self.ev(st[4], leaves)
            if isinstance(rhs, list):
                rhs = rhs[0] if rhs else (0, False)
            kind, cur = self.sig.get(name, ("mid", (0, False)))
            ivs = ()
            if idx:
                iv = self.ev(idx[0], leaves)
                ivs = (iv[0],)
                rhs = (rhs[0], rhs[1] or iv[1])
                if isinstance(cur, list) and iv[0] < len(cur):
                    cur = list(cur)
                    cur[iv[0]] = rhs
            else:
                cur = rhs
            self.sig[name] = (kind, cur)
            if kind != "mid":
                self.events.append(("sig", name, ivs, rhs[0]))
            if op == "<==" and (kind != "mid" or rhs[1]):
                self.events.append(("con", st[-1]["id"], tuple(leaves), ivs, rhs[0]))
        elif t == "ceq":
            leaves = []
            a = self.ev(st[1], leaves)
            b = self.ev(st[2], leaves)
            if a[1] or b[1]:
                self.events.append(("con", st[-1]["id"], tuple(leaves), a[0], b[0]))
        elif t == "assert":
            self.events.append(("assert", st[-1]["id"], self.ev(st[1], None)[0]))
        elif t == "log":
            self.ev(st[1], None)
        elif t == "return":
            v = self.ev(st[1], None)
            if isinstance(v, list):
                v = v[0] if v else (0, False)
            self.events.append(("ret", v[0]))
            raise Stop()
        elif t == "if":
            c = self.ev(st[1], None)[0] != 0
            self.events.append(("br", st[-1]["id"], c))
            if c:
                self.block(st[2])
            elif st[3] is not None:
                self.block(st[3])
        elif t == "while":
            while True:
                self.tick()
                c = self.ev(st[1], None)[0] != 0
                self.events.append(("br", st[-1]["id"], c))
                if not c:
                    break
                self.block(st[2])
        elif t == "for":
            self.scopes.append({})
            try:
                self.stmt(st[1])
                while True:
                    self.tick()
                    c = self.ev(st[2], None)[0] != 0
                    self.events.append(("br", st[-1]["id"], c))
                    if not c:
                        break
                    self.block(st[4])
                    self.stmt(st[3])
            finally:
                self.scopes.pop()
        elif t == "block":
            self.block(st[1])
        else:
            raise ValueError(t)


def run(prog, params, inputs, perturb=None, budget=400):
    """Returns (events, complete)."""
    r = Run(prog, params, inputs, perturb, budget)
    return r.events, r.go()


def all_stmts(ss):
    for s in ss:
        yield s
        t = s[0]
        if t == "if":
            yield from all_stmts(s[2])
            if s[3] is not None:
                yield from all_stmts(s[3])
        elif t == "while":
            yield from all_stmts(s[2])
        elif t == "for":
            yield s[1]
            yield s[3]
            yield from all_stmts(s[4])
        elif t == "block":
            yield from all_stmts(s[1])


def find_assignments(prog, name, start, end):
    """Assignment statements of the source whose span is (start, end) and that assign `name`."""
    out = []
    for s in all_stmts(prog["body"]):
        if s[0] in ("decl", "assign", "incr") and s[-1].get("span") == (start, end) and s[1] == name:
            out.append(s)
    return out


def find_signal_assignments(prog, name, start, end):
    return [s for s in all_stmts(prog["body"]) if s[0] == "sigassign" and s[-1].get("span") == (start, end) and s[1] == name]


def valuations(prog, rng, n):
    """n valuations of parameters and input signals: small values (parameters bound loops and
    dimensions), the first ones systematic."""
    vals = []
    small = [0, 1, 2, 3]
    sigv = [0, 1, 2, 3, 5, P - 1, 7, 1 << 20]
    for k in range(n):
        if k < 4:
            params = dict((p, small[(k + j) % 4]) for j, p in enumerate(prog["params"]))
            inputs = dict((s, [sigv[(k + j + q) % 4] for q in range(ln or 1)]) for j, (s, ln) in enumerate(prog["sig_in"]))
        else:
            params = dict((p, rng.choice(small)) for p in prog["params"])
            inputs = dict((s, [rng.choice(sigv) for _ in range(ln or 1)]) for s, ln in prog["sig_in"])
        vals.append((params, inputs))
    return vals


REPLACEMENTS = [0, 1, 2, 3, 5, 7, P - 1, 11, 1 << 16, 4]


def check_program(prog, claims, rng, nval=32, nrep=8):
    """claims: list of perturbation makers `value -> perturbation` (("stmt", id, v) or ("param", name, v)).
    Returns one verdict per claim: None if no effect differs on any explored run, else a dict
    describing the first difference. The unperturbed run of a valuation is shared by all claims; a
    perturbation of a statement that the unperturbed run never executes is skipped (the two runs
    are identical up to the first execution of the flagged statement)."""
    verdicts = [None] * len(claims)
    runs = 0
    for params, inputs in valuations(prog, rng, nval):
        r = Run(prog, params, inputs)
        complete = r.go()
        base = r.events
        for ci, mk in enumerate(claims):
            if verdicts[ci] is not None:
                continue
            probe = mk(0)
            if probe[0] == "stmt" and probe[1] not in r.executed:
                continue
            for v in REPLACEMENTS[:nrep]:
                r2 = Run(prog, params, inputs, mk(v))
                c2 = r2.go()
                ev = r2.events
                runs += 1
                n = min(len(base), len(ev)) if not (complete and c2) else max(len(base), len(ev))
                if base[:n] != ev[:n]:
                    k = 0
                    while k < min(len(base), len(ev)) and base[k] == ev[k]:
                        k += 1
                    verdicts[ci] = {"params": params, "inputs": inputs, "replacement": v, "first_difference_at_event": k,
                                    "base_event": repr(base[k]) if k < len(base) else None,
                                    "perturbed_event": repr(ev[k]) if k < len(ev) else None}
                    break
    return verdicts, runs
