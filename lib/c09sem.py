"""C09: reference interpreter with perturbation — the violation-search oracle.

Runs a program of c09gen's AST (the *source* program: lexical scoping, Circom's
default value 0, no knowledge of the tool's CFG or SSA form) on one valuation of
the parameters and input signals and returns the list of effects the property
names:

  ("sig", name, index, value)     a value assigned to an input or output signal
  ("con", id, leaves, lhs, rhs)   a constraint (=== or <==) that mentions an input or output signal:
                                  directly, or through a local / intermediate signal whose current value
                                  was computed from one, or was assigned (or could have been assigned: both
                                  branches, loop bodies) under a branch / loop whose condition depends on one
                                  (data AND control dependence = information flow, tracked per value; third audit);
                                  `leaves` are the values of all names the constraint reads
  ("assert", id, value)           an assertion
  ("ret", value)                  the return value (ends the run)
  ("dim", id, values)             the dimensions of a declaration
  ("br", id, bool)                a branch decision (if / while / for condition)

A perturbation replaces the value stored by one assignment statement (every time
it executes), or the value of one parameter, by a given value.

Semantic conventions (they are assumptions of the check, listed in the
evidence): every operator is total (the property speaks about evaluations that
happen: a perturbation that would make a *dead* computation fail is not an
effect) — an out-of-range array read yields 0, an out-of-range write is dropped,
a failing assert is an event and the run continues; `ext` is an uninterpreted
deterministic function; runs are cut after a step budget (400 statements)."""

P = 21888242871839275222246405745257275088548364400416034343698204186575808495617
HALF = P // 2


class Stop(Exception):
    pass


class Budget(Exception):
    pass


def make_nested(dims, fill):
    if not dims:
        return fill
    return [make_nested(dims[1:], fill) for _ in range(dims[0])]


def mark(val):
    """Every element of an input/output signal depends on an exported signal."""
    if isinstance(val, list):
        return [mark(v) for v in val]
    return (val[0], True)


def leaf(val):
    while isinstance(val, list):
        val = val[0] if val else (0, False)
    return val


def get_nested(val, idx):
    """Element at the index list; out of range reads yield 0 (totalised)."""
    for k in idx:
        if isinstance(val, list):
            if k < len(val):
                val = val[k]
            else:
                return (0, False)
    return leaf(val)


def set_nested(val, idx, new):
    """Copy of val with the element at idx replaced; an out-of-range write is dropped."""
    if not idx or not isinstance(val, list):
        return new if not isinstance(val, list) else val
    k = idx[0]
    if k >= len(val):
        return val
    out = list(val)
    out[k] = set_nested(val[k], idx[1:], new)
    return out


def fill_nested(dims, flat, pos=0):
    """Nested list of the given dimensions filled row-major from flat values (missing -> 0)."""
    if not dims:
        v = flat[pos[0]] if pos[0] < len(flat) else 0
        pos[0] += 1
        return (v % P, True)
    return [fill_nested(dims[1:], flat, pos) for _ in range(dims[0])]


def sgn(v):
    return v - P if v > HALF else v


def binop(op, a, b):
    if op == "+":
        return (a + b) % P
    if op == "-":
        return (a - b) % P
    if op == "*":
        return (a * b) % P
    if op == "==":
        return int(a == b)
    if op == "!=":
        return int(a != b)
    if op == "<":
        return int(sgn(a) < sgn(b))
    if op == "<=":
        return int(sgn(a) <= sgn(b))
    if op == ">":
        return int(sgn(a) > sgn(b))
    if op == ">=":
        return int(sgn(a) >= sgn(b))
    if op == "&&":
        return int(a != 0 and b != 0)
    if op == "||":
        return int(a != 0 or b != 0)
    if op == ">>":
        return (a >> b) if b < 256 else 0
    if op == "&":
        return a & b
    raise ValueError(op)


def comp_hash(tmpl, args, ports, port):
    acc = 777 + sum(ord(ch) for ch in tmpl + port)
    d = False
    for k, a in enumerate(args):
        acc = (acc * 1000003 + (k + 1) * a[0] + 11) % P
        d = d or a[1]
    for name in sorted(ports):
        v = ports[name]
        acc = (acc * 1000033 + sum(ord(ch) for ch in name) * 7 + 3 * v[0] + 5) % P
        d = d or v[1]
    return (acc, d)


def assigned_in(ss, acc=None):
    """Names (locals, signals, components) syntactically assigned by the statements, nested ones included."""
    acc = set() if acc is None else acc
    for s in all_stmts(ss):
        t = s[0]
        if t in ("decl", "assign", "incr", "sigassign", "compdecl", "portassign"):
            acc.add(s[1])
        elif t == "tupledecl":
            acc.update(s[1])
    return acc


class Run:
    def __init__(self, prog, params, inputs, perturb=None, budget=400):
        self.prog = prog
        self.scopes = [dict((p, (params[p] % P, False)) for p in prog["params"])]
        self.inputs = inputs
        self.sig = {}          # name -> (kind, value or list)
        self.events = []
        self.steps = 0
        self.budget = budget
        self.pid = None
        self.pval = None
        self.executed = set()
        self.ctx = False       # the current statement is control dependent on a condition that depends on an exported signal
        self.comp = {}         # component name -> {"args": [(v, d)..], "ports": {port: (v, d)}}
        if perturb is not None:
            if perturb[0] == "param":
                self.scopes[0][perturb[1]] = (perturb[2] % P, False)
            else:
                self.pid, self.pval = perturb[1], perturb[2] % P

    def go(self):
        """Runs the body; False if the step budget was exhausted."""
        try:
            self.scopes.append({})
            for s in self.prog["body"]:
                self.stmt(s)
            return True
        except Stop:
            return True
        except Budget:
            return False

    # ---- names ----
    def lookup(self, n):
        for sc in reversed(self.scopes):
            if n in sc:
                return sc
        return None

    def read(self, n):
        sc = self.lookup(n)
        if sc is not None:
            return sc[n]
        if n in self.sig:
            kind, val = self.sig[n]
            if kind != "mid":
                return mark(val)
            return val
        return (0, False)

    # ---- expressions: returns (value, depends-on-exported-signal) ----
    def ev(self, e, leaves):
        t = e[0]
        if t == "num":
            return (e[1] % P, False)
        if t == "var":
            v = leaf(self.read(e[1]))      # a whole array used as a scalar is not generated; totalised
            if leaves is not None:
                leaves.append(v[0])
            return v
        if t == "idx":
            d = False
            arr = self.read(e[1])
            idx = []
            for i in e[2]:
                iv, idd = self.ev(i, leaves)
                d = d or idd
                idx.append(iv)
            v = get_nested(arr, idx)
            if leaves is not None:
                leaves.append(v[0])
            return (v[0], v[1] or d)
        if t == "bin":
            a = self.ev(e[2], leaves)
            b = self.ev(e[3], leaves)
            return (binop(e[1], a[0], b[0]), a[1] or b[1])
        if t == "un":
            a = self.ev(e[2], leaves)
            if e[1] == "-":
                return ((-a[0]) % P, a[1])
            return (int(a[0] == 0), a[1])
        if t == "tern":
            c = self.ev(e[1], leaves)
            a = self.ev(e[2], leaves)
            b = self.ev(e[3], leaves)
            r = a if c[0] != 0 else b
            return (r[0], r[1] or c[1])
        if t == "call":
            acc = 12345
            d = False
            for k, a in enumerate(e[2]):
                v = self.ev(a, leaves)
                acc = (acc * 1000003 + (k + 1) * v[0] + 7) % P
                d = d or v[1]
            return (acc, d)
        if t == "arr":
            return [self.ev(a, leaves) for a in e[1]]
        if t == "port":
            v = self.comp_value(e[1], e[2])
            if leaves is not None:
                leaves.append(v[0])
            return v
        if t == "anon":
            args = [leaf(self.ev(a, leaves)) for a in e[2]]
            ins = [leaf(self.ev(a, leaves)) for a in e[3]]
            return comp_hash(e[1], args, dict(("a%d" % k, v) for k, v in enumerate(ins)), "b")
        raise ValueError(t)

    def comp_value(self, c, port):
        """An output port of a sub-component: an uninterpreted deterministic function of the template, its
        arguments and everything assigned to its input ports so far."""
        st = self.comp.get(c)
        if st is None:
            return (0, False)
        return comp_hash(st["tmpl"], st["args"], st["ports"], port)

    def dims(self, st, ds):
        if ds:
            vals = tuple(self.ev(d, None)[0] for d in ds)
            self.events.append(("dim", st[-1]["id"], vals))
            return [min(v, 16) for v in vals]
        return None

    def tick(self):
        self.steps += 1
        if self.steps > self.budget:
            raise Budget()

    # ---- statements ----
    def block(self, ss):
        self.scopes.append({})
        try:
            for s in ss:
                self.stmt(s)
        finally:
            self.scopes.pop()

    def stored(self, st, val):
        """The value an assignment stores (perturbed if this is the flagged statement)."""
        if self.ctx:
            val = mark(val) if isinstance(val, list) else (val[0], True)
        if self.pid is not None and st[-1].get("id") == self.pid:
            if isinstance(val, list):
                return [(self.pval, d) for _, d in val]
            return (self.pval, val[1])
        return val

    def taint_assigned(self, ss):
        """After a branch / loop whose condition depends on an exported signal: everything that either
        branch (the loop body) assigns carries the dependence, whether or not it was executed."""
        for n in assigned_in(ss):
            sc = self.lookup(n)
            if sc is not None:
                v = sc[n]
                sc[n] = mark(v) if isinstance(v, list) else (v[0], True)
            elif n in self.sig:
                kind, val = self.sig[n]
                self.sig[n] = (kind, mark(val) if isinstance(val, list) else (val[0], True))
            elif n in self.comp:
                self.comp[n]["args"] = [(a[0], True) for a in self.comp[n]["args"]] or [(0, True)]

    def stmt(self, st):
        self.tick()
        t = st[0]
        self.executed.add(st[-1].get("id"))
        if t == "decl":
            ln = self.dims(st, st[2])
            if ln is not None:
                val = make_nested(ln, (0, False))
                if st[3] is not None and len(ln) == 1:
                    init = self.ev(st[3], None)
                    if isinstance(init, list):
                        init = self.stored(st, init)
                        val = (init + val)[:ln[0]] if len(init) < ln[0] else init[:ln[0]]
                self.scopes[-1][st[1]] = val
            else:
                if st[3] is not None:
                    v = leaf(self.ev(st[3], None))
                    self.scopes[-1][st[1]] = self.stored(st, v)
                else:
                    self.scopes[-1][st[1]] = (0, False)
        elif t == "sigdecl":
            ln = self.dims(st, st[3])
            kind, name = st[1], st[2]
            if kind == "input":
                iv = self.inputs.get(name, 0)
                iv = iv if isinstance(iv, list) else [iv]
                val = fill_nested(ln or [], iv, [0])
            else:
                val = make_nested(ln or [], (0, False))
            self.sig[name] = (kind, val)
        elif t == "assign" or t == "incr":
            name = st[1]
            sc = self.lookup(name)
            if sc is None:
                sc = self.scopes[-1]
                sc[name] = (0, False)
            if t == "incr":
                idx, op, rhs = [], "+=" if st[2] == "++" else "-=", (1, False)
            else:
                idx, op = st[2], st[3]
                rhs = leaf(self.ev(st[4], None))
            cur = sc[name]
            if idx:
                ivs = [self.ev(i, None) for i in idx]
                ks = [v[0] for v in ivs]
                idep = any(v[1] for v in ivs)
                if not isinstance(cur, list):
                    cur = [cur]
                old = get_nested(cur, ks)
            else:
                old = leaf(cur)
            if op == "=":
                new = rhs
            else:
                new = (binop(op[0], old[0], rhs[0]), old[1] or rhs[1])
            new = self.stored(st, new)
            if idx:
                new = (new[0], new[1] or idep)
                sc[name] = set_nested(cur, ks, new)
            else:
                sc[name] = new
        elif t == "sigassign":
            name, idx, op = st[1], st[2], st[3]
            leaves = []
            rhs = leaf(self.ev(st[4], leaves))
            rhs = (rhs[0], rhs[1] or self.ctx)
            kind, cur = self.sig.get(name, ("mid", (0, False)))
            ivs = ()
            if idx:
                ivl = [self.ev(i, leaves) for i in idx]
                ivs = tuple(v[0] for v in ivl)
                rhs = (rhs[0], rhs[1] or any(v[1] for v in ivl))
                if isinstance(cur, list):
                    cur = set_nested(cur, list(ivs), rhs)
            else:
                cur = rhs
            self.sig[name] = (kind, cur)
            if kind != "mid":
                self.events.append(("sig", name, ivs, rhs[0]))
            if op == "<==" and (kind != "mid" or rhs[1]):
                self.events.append(("con", st[-1]["id"], tuple(leaves), ivs, rhs[0]))
        elif t == "compdecl":
            self.comp[st[1]] = {"tmpl": st[2], "args": [leaf(self.ev(a, None)) for a in st[3]], "ports": {}}
            if self.ctx:
                self.comp[st[1]]["args"].append((0, True))
        elif t == "portassign":
            c, port, op = st[1], st[2], st[3]
            leaves = []
            rhs = leaf(self.ev(st[4], leaves))
            rhs = (rhs[0], rhs[1] or self.ctx)
            cs = self.comp.setdefault(c, {"tmpl": "?", "args": [], "ports": {}})
            before = comp_hash(cs["tmpl"], cs["args"], cs["ports"], "")
            cs["ports"][port] = rhs
            # an input port of a sub-component is not an input/output signal of THIS template: the assignment is
            # an effect only as a constraint that mentions an exported signal (through the value or the component)
            if op == "<==" and (rhs[1] or before[1]):
                self.events.append(("con", st[-1]["id"], tuple(leaves), port, rhs[0]))
        elif t == "tupledecl":
            vals = [leaf(self.ev(e, None)) for e in st[2]]
            for n, v in zip(st[1], vals):
                if self.ctx:
                    v = (v[0], True)
                if self.pid is not None and self.pid == (st[-1].get("id"), n):
                    v = (self.pval, v[1])
                self.scopes[-1][n] = v
        elif t == "ceq":
            leaves = []
            a = self.ev(st[1], leaves)
            b = self.ev(st[2], leaves)
            if a[1] or b[1]:
                self.events.append(("con", st[-1]["id"], tuple(leaves), a[0], b[0]))
        elif t == "assert":
            self.events.append(("assert", st[-1]["id"], self.ev(st[1], None)[0]))
        elif t == "log":
            self.ev(st[1], None)
        elif t == "return":
            v = leaf(self.ev(st[1], None))
            self.events.append(("ret", v[0]))
            raise Stop()
        elif t == "if":
            cv = self.ev(st[1], None)
            c = cv[0] != 0
            self.events.append(("br", st[-1]["id"], c))
            old = self.ctx
            self.ctx = old or cv[1]
            try:
                if c:
                    self.block(st[2])
                elif st[3] is not None:
                    self.block(st[3])
            finally:
                self.ctx = old
            if cv[1]:
                self.taint_assigned(st[2] + (st[3] or []))
        elif t == "while":
            old = self.ctx
            dep = False
            try:
                while True:
                    self.tick()
                    cv = self.ev(st[1], None)
                    c = cv[0] != 0
                    dep = dep or cv[1]
                    self.ctx = old or dep
                    self.events.append(("br", st[-1]["id"], c))
                    if not c:
                        break
                    self.block(st[2])
            finally:
                self.ctx = old
                if dep:
                    self.taint_assigned(st[2])
        elif t == "for":
            self.scopes.append({})
            old = self.ctx
            dep = False
            try:
                self.stmt(st[1])
                while True:
                    self.tick()
                    cv = self.ev(st[2], None)
                    c = cv[0] != 0
                    dep = dep or cv[1]
                    self.ctx = old or dep
                    self.events.append(("br", st[-1]["id"], c))
                    if not c:
                        break
                    self.block(st[4])
                    self.stmt(st[3])
            finally:
                self.ctx = old
                if dep:
                    self.taint_assigned(st[4] + [st[3]])
                self.scopes.pop()
        elif t == "block":
            self.block(st[1])
        else:
            raise ValueError(t)


def run(prog, params, inputs, perturb=None, budget=400):
    """Returns (events, complete)."""
    r = Run(prog, params, inputs, perturb, budget)
    return r.events, r.go()


def all_stmts(ss):
    for s in ss:
        yield s
        t = s[0]
        if t == "if":
            yield from all_stmts(s[2])
            if s[3] is not None:
                yield from all_stmts(s[3])
        elif t == "while":
            yield from all_stmts(s[2])
        elif t == "for":
            yield s[1]
            yield s[3]
            yield from all_stmts(s[4])
        elif t == "block":
            yield from all_stmts(s[1])


def find_assignments(prog, name, start, end):
    """Assignment statements of the source whose span is (start, end) and that assign `name`."""
    out = []
    for s in all_stmts(prog["body"]):
        if s[0] in ("decl", "assign", "incr") and s[-1].get("span") == (start, end) and s[1] == name:
            out.append(s)
        elif s[0] == "tupledecl" and s[-1].get("span") == (start, end) and name in s[1]:
            out.append(s)
    return out


def find_signal_assignments(prog, name, start, end):
    return [s for s in all_stmts(prog["body"]) if s[0] in ("sigassign", "compdecl", "portassign")
            and s[-1].get("span") == (start, end) and s[1] == name]


def valuations(prog, rng, n):
    """n valuations of parameters and input signals: small values (parameters bound loops and
    dimensions), the first ones systematic."""
    def size(ln):
        n = 1
        for d in ([] if ln is None else ([ln] if isinstance(ln, int) else list(ln))):
            n *= d
        return n
    vals = []
    small = [0, 1, 2, 3]
    sigv = [0, 1, 2, 3, 5, P - 1, 7, 1 << 20]
    for k in range(n):
        if k < 4:
            params = dict((p, small[(k + j) % 4]) for j, p in enumerate(prog["params"]))
            inputs = dict((s, [sigv[(k + j + q) % 4] for q in range(size(ln))]) for j, (s, ln) in enumerate(prog["sig_in"]))
        else:
            params = dict((p, rng.choice(small)) for p in prog["params"])
            inputs = dict((s, [rng.choice(sigv) for _ in range(size(ln))]) for s, ln in prog["sig_in"])
        vals.append((params, inputs))
    return vals


REPLACEMENTS = [0, 1, 2, 3, 5, 7, P - 1, 11, 1 << 16, 4]


def check_program(prog, claims, rng, nval=32, nrep=8):
    """claims: list of perturbation makers `value -> perturbation` (("stmt", id, v) or ("param", name, v)).
    Returns one verdict per claim: None if no effect differs on any explored run, else a dict
    describing the first difference. The unperturbed run of a valuation is shared by all claims; a
    perturbation of a statement that the unperturbed run never executes is skipped (the two runs
    are identical up to the first execution of the flagged statement)."""
    verdicts = [None] * len(claims)
    runs = 0
    for params, inputs in valuations(prog, rng, nval):
        r = Run(prog, params, inputs)
        complete = r.go()
        base = r.events
        for ci, mk in enumerate(claims):
            if verdicts[ci] is not None:
                continue
            probe = mk(0)
            if probe[0] == "stmt" and (probe[1][0] if isinstance(probe[1], tuple) else probe[1]) not in r.executed:
                continue
            for v in REPLACEMENTS[:nrep]:
                r2 = Run(prog, params, inputs, mk(v))
                c2 = r2.go()
                ev = r2.events
                runs += 1
                n = min(len(base), len(ev)) if not (complete and c2) else max(len(base), len(ev))
                if base[:n] != ev[:n]:
                    k = 0
                    while k < min(len(base), len(ev)) and base[k] == ev[k]:
                        k += 1
                    verdicts[ci] = {"params": params, "inputs": inputs, "replacement": v, "first_difference_at_event": k,
                                    "base_event": repr(base[k]) if k < len(base) else None,
                                    "perturbed_event": repr(ev[k]) if k < len(ev) else None}
                    break
    return verdicts, runs
