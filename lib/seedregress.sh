#!/bin/bash
# lib/seedregress.sh <name>... : re-runs the checks recorded for each seeded change against the CURRENT /repo HEAD and the
# current /verif: scratch worktree, `git apply` (skipped if the patch no longer applies), VERIF_REPO=<worktree> ./check <id> quick
# for the seed's own property. Writes seeded/<name>/regress.json. Never touches /repo's working tree.
set -u
cd /verif
for NAME in "$@"; do
  D=/verif/seeded/$NAME
  PROP=$(python3 -c "import json,sys; print(json.load(open('$D/meta.json')).get('property') or '$NAME'.split('-')[0])")
  WT=/tmp/wt-regress-$NAME
  git -C /repo worktree add -q $WT HEAD 2>/dev/null || { echo "$NAME: worktree failed"; continue; }
  if git -C $WT apply $D/patch.diff 2>/dev/null; then
    VERIF_REPO=$WT timeout 2400 ./check $PROP quick > $D/regress_$PROP.log 2>&1; rc=$?
    nv=$(grep -c "^VIOLATION" $D/regress_$PROP.log); nf=$(grep -c "no-failing-input-found" $D/regress_$PROP.log)
    echo "{\"repo_head\": \"$(git -C /repo rev-parse --short HEAD)\", \"check\": \"$PROP\", \"exit\": $rc, \"violation_lines\": $nv, \"no_failing_input_found\": $nf}" > $D/regress.json
    echo "$NAME: $PROP rc=$rc violations=$nv nofail=$nf"
  else
    echo "{\"repo_head\": \"$(git -C /repo rev-parse --short HEAD)\", \"check\": \"$PROP\", \"skipped\": \"patch no longer applies to HEAD (the anchored code was repaired or changed since)\"}" > $D/regress.json
    echo "$NAME: patch does not apply"
  fi
  TAG=$(echo "${WT#/}" | sed -E "s/[^A-Za-z0-9]+/_/g")
  git -C /repo worktree remove --force $WT; rm -rf "/verif/.cache/alt/$TAG"
done
