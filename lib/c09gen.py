"""C09: generator of Circom functions and templates as a small AST of my own
(so that the reference interpreter in c09sem.py runs on the *source* program,
independently of the tool's CFG/SSA), and the renderer that records the byte
span of every assignment statement (the location the tool's findings carry).

Expressions:  ("num", n) ("var", x) ("idx", x, [e..]) ("bin", op, a, b) ("un", op, a)
              ("tern", c, a, b) ("call", f, [e..]) ("arr", [e..])
Statements:   ("decl", x, [dim..], init|None)            var x[..] = init;
              ("sigdecl", kind, x, [dim..])              signal input|output|mid x[..];
              ("assign", x, [idx..], op, e)              x[..] op e;   op in = += -= *=
              ("incr", x, "++"|"--")
              ("sigassign", x, [idx..], "<--"|"<==", e)
              ("ceq", a, b) ("assert", e) ("log", e) ("return", e)
              ("if", c, [s..], [s..]|None) ("while", c, [s..]) ("for", init, c, step, [s..])
              ("block", [s..])
Third audit:  ("port", c, p)  c.p        ("anon", T, [args], [inputs])  T(args)(inputs)      (expressions)
              ("compdecl", c, T, [args])               component c = T(args);
              ("portassign", c, p, "<=="|"<--", e)     c.p <== e;
              ("tupledecl", [x..], [e..])              var (x, y) = (e1, e2);
              `return` nested in loops / branches, assignments to parameters, signals and compound
              expressions as indices, loops whose trip count depends on a local or a signal.
A program that uses components or tuples has prog["helpers"] = True: its source is the definition followed
by the helper templates (HELPERS), and the harness runs the real desugarer on it.
Every statement is a list whose last element is a dict (filled by render with
"span": (start, end) of the statement text without the `;`, and "id")."""

P = 21888242871839275222246405745257275088548364400416034343698204186575808495617

BINOPS = ["+", "-", "*", "+", "*", "==", "!=", "<", "<=", ">", ">=", "&&", "||", ">>", "&"]
ARITH = ["+", "-", "*"]


HELPERS = """template Sub(k) { signal input a0; signal output b; b <== a0 * k; }
template Sub2(k) { signal input a0; signal input a1; signal output b; b <== a0 * a1 + k; }
"""


def S(*a):
    return list(a) + [{}]


def dimsof(ln):
    """Dimensions of a declared name: None (scalar), an int (one dimension) or a tuple/list."""
    if ln is None:
        return ()
    if isinstance(ln, int):
        return (ln,)
    return tuple(ln)


def mentions(e, n):
    if isinstance(e, (tuple, list)):
        if len(e) >= 2 and e[0] in ("var", "idx") and e[1] == n:
            return True
        return any(mentions(x, n) for x in e[1:])
    return False


class Gen:
    def __init__(self, rng, template=None, alphabet=None, size=None, depth=2, force=()):
        self.r = rng
        self.template = (rng.random() < 0.6) if template is None else template
        self.alpha = alphabet if alphabet is not None else rng.choice(["plain", "plain", "collide"])
        self.size = size if size is not None else rng.randrange(3, 11)
        self.depth = depth
        self.scopes = [[]]          # lists of (name, kind) kind: "s" scalar, ("a", len)
        self.params = []
        self.sig_in = []            # (name, len or None)
        self.sig_out = []
        self.sig_mid = []
        self.protected = set()      # loop counters
        self.chain_tails = []       # last names of long dependency chains (program() lets them reach an effect)
        self.force = list(force)    # shapes to produce at the next top-level statements (size probes)
        self.comps = []             # declared components: (name, number of input ports)
        self.n = 0
        self.features = set()

    # ---- names ----
    def fresh(self, kind="v"):
        r = self.r
        self.n += 1
        if self.alpha == "collide" and r.random() < 0.7:
            # names that collide with the printed form `name_suffix` of shadowing declarations
            return r.choice(["x", "x_0", "x_1", "y", "y_0", "x_0_0"])
        return "%s%d" % (kind, self.n)

    def visible(self):
        out = {}
        for sc in self.scopes:
            for n, k in sc:
                out[n] = k
        return out

    def scalars(self):
        return [n for n, k in self.visible().items() if k == "s"]

    def arrays(self):
        return [(n, k[1]) for n, k in self.visible().items() if k != "s" and k[0] == "a"]

    def components(self):
        return [n for n, k in self.visible().items() if k != "s" and k[0] == "c"]

    # ---- expressions ----
    def lit(self):
        r = self.r
        c = r.random()
        if c < 0.8:
            return ("num", r.choice([0, 1, 2, 3, 4, 5, 7]))
        if c < 0.9:
            return ("num", r.choice([P - 1, P - 2, 255, 256]))
        return ("num", r.randrange(1 << 16))

    def atom(self, sig_ok=True, prefer=None):
        r = self.r
        c = r.random()
        sc = self.scalars()
        if prefer and r.random() < 0.6:
            return ("var", r.choice(prefer))
        if c < 0.12 and self.components():
            self.features.add("port-read")
            return ("port", r.choice(self.components()), "b")
        if sc and c < 0.45:
            return ("var", r.choice(sc))
        if self.params and c < 0.55:
            return ("var", r.choice(self.params))
        if sig_ok and self.template and c < 0.75:
            sigs = self.sig_in + self.sig_mid + (self.sig_out if r.random() < 0.3 else [])
            if sigs:
                n, ln = r.choice(sigs)
                if ln is None:
                    return ("var", n)
                self.features.add("sigarray-read")
                return ("idx", n, self.indices(ln))
        ar = self.arrays()
        if ar and c < 0.88:
            n, ln = r.choice(ar)
            self.features.add("array-read")
            return ("idx", n, self.indices(ln))
        return self.lit()

    def indices(self, ln):
        """One index per dimension; for several dimensions the positions prefer *different*
        variables (a variable may then reach a sink only through a non-last index)."""
        ds = dimsof(ln)
        if len(ds) <= 1:
            return [self.index(d) for d in ds]
        self.features.add("multi-index")
        out = []
        used = set()
        for d in ds:
            e = self.index(d)
            if e[0] == "var" and e[1] in used:
                cands = [x for x in self.scalars() + self.params if x not in used]
                e = ("var", self.r.choice(cands)) if cands else ("num", self.r.randrange(d))
            if e[0] == "var":
                used.add(e[1])
                self.features.add("multi-index-var")
            out.append(e)
        return out

    def index(self, ln):
        r = self.r
        if r.random() < 0.12:
            sigs = [n for n, l in self.sig_in + self.sig_mid if l is None] if self.template else []
            sc = self.scalars() + self.params
            if sigs and r.random() < 0.6:
                self.features.add("signal-index")
                return ("var", r.choice(sigs))
            if sc:
                self.features.add("compound-index")
                a = ("var", r.choice(sc))
                k = r.random()
                if k < 0.4:
                    return ("bin", "+", a, ("num", r.randrange(2)))
                if k < 0.7 and sigs:
                    self.features.add("signal-index")
                    return ("bin", r.choice(["+", "*", "&"]), a, ("var", r.choice(sigs)))
                return ("bin", r.choice(["*", "&", "-"]), a, ("var", r.choice(sc)))
        if r.random() < 0.6:
            return ("num", r.randrange(ln))
        sc = self.scalars() + self.params
        if sc and r.random() < 0.8:
            self.features.add("var-index")
            return ("var", r.choice(sc))
        return ("num", r.randrange(ln + 1))

    def expr(self, depth, sig_ok=True, arith=False, prefer=None):
        r = self.r
        if depth <= 0 or r.random() < 0.3:
            return self.atom(sig_ok, prefer)
        c = r.random()
        if c < 0.7:
            op = r.choice(ARITH if arith else BINOPS)
            return ("bin", op, self.expr(depth - 1, sig_ok, arith, prefer), self.expr(depth - 1, sig_ok, arith, prefer))
        if c < 0.78 and not arith:
            return ("un", r.choice(["-", "!"]), self.expr(depth - 1, sig_ok, arith, prefer))
        if c < 0.88 and not arith:
            self.features.add("ternary")
            return ("tern", self.cond(depth - 1, sig_ok), self.expr(depth - 1, sig_ok), self.expr(depth - 1, sig_ok))
        if c < 0.93 and not arith:
            self.features.add("call")
            return ("call", "ext", [self.expr(depth - 1, sig_ok) for _ in range(r.randrange(1, 3))])
        return self.expr(depth - 1, sig_ok, arith, prefer)

    def cond(self, depth, sig_ok=True, prefer=None):
        r = self.r
        op = r.choice(["<", "<=", ">", ">=", "==", "!=", "==", "<"])
        c = ("bin", op, self.expr(depth, sig_ok, False, prefer), self.expr(max(0, depth - 1), sig_ok))
        if r.random() < 0.15:
            c = ("bin", r.choice(["&&", "||"]), c, self.cond(0, sig_ok))
        if r.random() < 0.08:
            c = ("un", "!", c)
        if r.random() < 0.06:
            c = ("bin", "==", ("num", r.choice([0, 1])), ("num", r.choice([0, 1])))      # constant condition
        return c

    # ---- statements ----
    def declare(self, name, kind):
        self.scopes[-1].append((name, kind))

    def body(self, depth, n, in_loop):
        self.scopes.append([])
        out = []
        for _ in range(n):
            out += self.stmt(depth, in_loop)
        self.scopes.pop()
        return out

    def const_cond(self, depth, in_loop):
        """`var k = 2; [var k2 = k + 1;] if (k2 == 3) {..} else {..}`: a branch whose condition constant
        propagation folds, fed by locals directly and through another local. In most instances the
        feeding locals are invisible to the rest of the generator, so the (folded) branch decision is
        the ONLY effect they reach."""
        r = self.r
        self.features.add("const-cond")
        self.n += 1
        k = "k%d" % self.n
        v0 = r.choice([0, 1, 2, 3])
        pre = [S("decl", k, [], ("num", v0))]
        names, val = [k], v0
        for _ in range(r.choice([0, 0, 1, 1, 2])):
            self.features.add("const-cond-transitive")
            self.n += 1
            k2 = "k%d" % self.n
            op, c = r.choice(["+", "*", "-"]), r.choice([1, 2])
            pre.append(S("decl", k2, [], ("bin", op, ("var", names[-1]), ("num", c))))
            val = {"+": val + c, "*": val * c, "-": val - c}[op]
            names.append(k2)
        if len(names) == 1:
            self.features.add("const-cond-direct")
        cond = ("bin", r.choice(["==", "!=", "<", ">=", ">", "=="]), ("var", names[-1]), ("num", r.choice([val % P, val % P, (val + 1) % P, 0, 1])))
        if r.random() < 0.15:
            cond = ("bin", r.choice(["&&", "||"]), cond, ("bin", "==", ("var", names[0]), ("num", r.choice([v0, v0 + 1]))))
        if r.random() < 0.1:
            cond = ("un", "!", cond)
        if r.random() < 0.35:
            self.features.add("const-cond-visible")
            for nm in names:
                self.declare(nm, "s")
        else:
            self.features.add("const-cond-only-sink")
        th = self.body(depth - 1, r.randrange(1, 3), in_loop)
        el = self.body(depth - 1, r.randrange(1, 3), in_loop) if r.random() < 0.7 else None
        return pre + [S("if", cond, th, el)]

    def simple_loop(self, in_loop, inner=0):
        """`for (var i = 0; i < bound; i++) { .. }` as one statement; the bound is a literal, a parameter or (templates) an
        input signal masked to two bits, the body assigns visible scalars."""
        r = self.r
        self.n += 1
        i = "i%d" % self.n
        k = r.random()
        sigs = [n for n, l in self.sig_in if l is None] if self.template else []
        if k < 0.3 and sigs:
            bound = ("bin", "&", ("var", r.choice(sigs)), ("num", 3))
        elif k < 0.6 and self.params:
            bound = ("var", r.choice(self.params))
        else:
            bound = ("num", r.randrange(1, 4))
        self.scopes.append([(i, "s")])
        self.protected.add(i)
        body = self.body(inner, r.randrange(1, 3), True)
        if inner > 0 and not any(st[0] in ("if", "for", "while") for st in body):
            # control inside the loop was asked for
            body.append(S("if", self.cond(1), self.body(inner - 1, 1, True),
                          self.body(inner - 1, 1, True) if r.random() < 0.5 else None))
        self.scopes.pop()
        return [S("for", S("decl", i, [], ("num", 0)), ("bin", "<", ("var", i), bound), S("incr", i, "++"), body)]

    # ---- shapes added after the fourth audit (sizes the generator never reached) ----
    def long_chain(self):
        """`var a0 = p; var a1 = a0 + 1; .. var aN = a(N-1) + 1;` with N in 36..60: the closure loops of multi_step_taint need
        more than N rounds from the head; the tail reaches an effect (added by program())."""
        r = self.r
        self.features.add("long-chain")
        self.n += 1
        base = "ch%d_" % self.n
        n = r.randrange(36, 61)
        head = self.atom(sig_ok=False)
        out = [S("decl", base + "0", [], head)]
        for k in range(1, n + 1):
            e = ("bin", r.choice(["+", "+", "*", "-"]), ("var", base + str(k - 1)), ("num", r.choice([1, 1, 2, 3])))
            if r.random() < 0.15:
                e = ("bin", "+", e, self.atom(sig_ok=False))
            out.append(S("decl", base + str(k), [], e))
        self.declare(base + str(n), "s")
        self.chain_tails.append(base + str(n))
        return out

    def many_blocks(self, in_region):
        """40..50 one-armed branches in a row (over 100 basic blocks). With in_region they sit in a branch on an input signal and are
        followed by an assignment that a later constraint uses: the branch region is more than 32 reachability rounds deep."""
        r = self.r
        self.n += 1
        v = "mb%d" % self.n
        n = r.randrange(35, 39) if in_region else r.randrange(40, 51)      # about 2.2 blocks per branch: 75-90 blocks
        seq = []
        for k in range(n):
            c = ("bin", r.choice(["==", "<", "!="]), ("var", v), ("num", r.randrange(0, 5)))
            if self.params and r.random() < 0.3:
                c = ("bin", "<", ("var", r.choice(self.params)), ("num", k % 4))
            seq.append(S("if", c, [S("assign", v, [], r.choice(["+=", "*="]), ("num", r.randrange(1, 4)))], None))
        self.features.add("many-blocks")
        if not (in_region and self.template and [x for x, l in self.sig_in if l is None]):
            self.declare(v, "s")
            return [S("decl", v, [], ("num", 0))] + seq
        self.features.add("deep-region")
        sig = r.choice([x for x, l in self.sig_in if l is None])
        y, z = "dy%d" % self.n, "dz%d" % self.n
        out = [S("decl", v, [], ("num", 0)), S("decl", y, [], ("num", 0)), S("decl", z, [], self.lit()),
               S("if", ("bin", "==", ("var", sig), self.lit()), seq + [S("assign", y, [], "=", ("bin", "+", ("var", v), ("num", 1)))], None)]
        if self.sig_mid:
            out.append(S("ceq", ("var", self.sig_mid[0][0]), ("bin", "*", ("var", y), ("var", z))))
        else:
            out.append(S("ceq", ("var", y), ("var", z)))
        return out

    def merged_const_condition(self):
        """`var x; if (in0 == c) { x = 1; } if (x == 1) { y = 1; } s === y * z`: the second condition reads a local merged from the
        default and a value assigned under a branch on a signal. It is NOT constant; an analysis that folds it (a phi that ignores its
        unknown argument) skips the region and loses the implicit flow in0 -> y."""
        r = self.r
        sigs = [x for x, l in self.sig_in if l is None]
        if not (self.template and sigs):
            return None
        self.features.add("merged-const-condition")
        self.n += 1
        x, y, z = "mx%d" % self.n, "my%d" % self.n, "mz%d" % self.n
        k = r.choice([1, 2, 3])
        out = [S("decl", x, [], None if r.random() < 0.7 else ("num", k + 1)), S("decl", y, [], ("num", 0)), S("decl", z, [], self.lit()),
               S("if", ("bin", r.choice(["==", "<"]), ("var", r.choice(sigs)), self.lit()), [S("assign", x, [], "=", ("num", k))], None),
               S("if", ("bin", "==", ("var", x), ("num", k)), [S("assign", y, [], "=", ("num", 1))],
                 [S("assign", y, [], "=", ("num", 2))] if r.random() < 0.4 else None)]
        if self.sig_mid and r.random() < 0.5:
            out += [S("sigassign", self.sig_mid[0][0], [], "<--", ("var", z)), S("ceq", ("var", self.sig_mid[0][0]), ("var", y))]
        else:
            out.append(S("ceq", ("var", y), ("var", z)))
        return out

    def nest3(self):
        """Three loops inside one another with a branch (and sometimes a fourth loop) innermost."""
        r = self.r
        self.features.add("loop-nesting-3")
        inner = self.body(1, r.randrange(1, 3), True)
        if not any(st[0] == "if" for st in inner):
            inner.append(S("if", self.cond(1), self.body(0, 1, True), self.body(0, 1, True) if r.random() < 0.5 else None))
        cur = inner
        names = []
        for lvl in range(3):
            self.n += 1
            i = "i%d" % self.n
            names.append(i)
            bound = ("var", r.choice(self.params)) if (self.params and r.random() < 0.3) else ("num", r.randrange(1, 3))
            sigs = [x for x, l in self.sig_in if l is None] if self.template else []
            if sigs and r.random() < 0.2:
                bound = ("bin", "&", ("var", r.choice(sigs)), ("num", 1))
            pre = self.body(0, r.randrange(0, 2), True)
            cur = [S("for", S("decl", i, [], ("num", 0)), ("bin", "<", ("var", i), bound), S("incr", i, "++"), pre + cur)]
        return cur

    def const_loop(self, in_loop):
        """A loop whose condition is constant for the tool: `while (0) {..}`, `while (2 < 1) {..}`."""
        r = self.r
        self.features.add("const-loop-cond")
        c = r.choice([("num", 0), ("bin", "<", ("num", 2), ("num", 1)), ("bin", "==", ("num", 1), ("num", 0))])
        return [S("while", c, self.body(0, r.randrange(1, 3), True))]

    def extra(self, depth, in_loop):
        """Shapes added after the third audit (each counted as a feature): sub-components and their ports,
        anonymous components, tuples, a signal / compound expression as index, trip counts that depend on a
        local or a signal, `return` nested in loops / branches, assignments to parameters."""
        r = self.r
        kinds = ["param-assign", "sig-index", "data-loop", "data-loop"]
        if self.template:       # tuples and anonymous components are rejected in functions
            kinds += ["component", "component", "anon", "anon", "sig-index", "ctl-partner", "tuple", "tuple"]
        else:
            kinds += ["nested-return", "nested-return", "nested-return"]
        k = r.choice(kinds)
        sc = [x for x in self.scalars() if x not in self.protected]
        if k == "component":
            self.n += 1
            c = "c%d" % self.n
            two = r.random() < 0.4
            out = [S("compdecl", c, "Sub2" if two else "Sub", [self.atom(sig_ok=False)])]
            for port in (["a0", "a1"] if two else ["a0"]):
                out.append(S("portassign", c, port, r.choice(["<==", "<==", "<--"]), self.expr(1, arith=True)))
            self.declare(c, ("c", 2 if two else 1))
            self.features.add("component")
            self.features.add("port-assign")
            if r.random() < 0.6 and self.sig_out + self.sig_mid:
                n, ln = r.choice(self.sig_out + self.sig_mid)
                e = ("port", c, "b")
                if r.random() < 0.5:
                    e = ("bin", "+", e, self.atom())
                self.features.add("port-read")
                out.append(S("sigassign", n, self.indices(ln), r.choice(["<==", "<--"]), e))
            return out
        if k == "anon":
            if not (self.sig_out + self.sig_mid):
                return None
            n, ln = r.choice(self.sig_out + self.sig_mid)
            two = r.random() < 0.4
            e = ("anon", "Sub2" if two else "Sub", [self.atom(sig_ok=False)],
                 [self.expr(1, arith=True) for _ in range(2 if two else 1)])
            self.features.add("anonymous-component")       # (only as the whole right-hand side: the desugarer rejects others)
            return [S("sigassign", n, self.indices(ln), "<==", e)]
        if k == "tuple":
            self.n += 1
            a, b = "u%d" % self.n, "w%d" % self.n
            es = [self.expr(1), self.expr(1)]
            self.declare(a, "s")
            self.declare(b, "s")
            self.features.add("tuple")
            return [S("tupledecl", [a, b], es)]
        if k == "param-assign":
            if not self.params:
                return None
            p = r.choice(self.params)
            self.features.add("param-assign")
            if r.random() < 0.5:
                return [S("assign", p, [], "=", self.expr(2))]
            return [S("assign", p, [], r.choice(["+=", "*=", "-="]), self.expr(1))]
        if k == "sig-index":
            # `var tab[2] = [3, 5]; var y = tab[in];` / `tab[s]` / `tab[(x + 1)]`
            self.n += 1
            t, y = "tab%d" % self.n, "y%d" % self.n
            sigs = [n for n, l in self.sig_in + self.sig_mid if l is None] if self.template else []
            cands = [("var", x) for x in sigs] * 2 + [("bin", "+", ("var", x), ("num", 1)) for x in sc + self.params]
            if not cands:
                return None
            ix = r.choice(cands)
            self.features.add("signal-index" if ix[0] == "var" and ix[1] in sigs else "compound-index")
            out = [S("decl", t, [("num", 2)], ("arr", [self.expr(1), self.expr(1)])), S("decl", y, [], ("idx", t, [ix]))]
            self.declare(t, ("a", 2))
            self.declare(y, "s")
            return out
        if k == "data-loop" and depth > 0:
            # the trip count depends on a local or a signal (masked so that runs stay short)
            self.n += 1
            w = "w%d" % self.n
            sigs = [n for n, l in self.sig_in + self.sig_mid if l is None] if self.template else []
            cands = [("var", x) for x in sc] + [("var", x) for x in sigs] * 2
            if not cands:
                return None
            b = r.choice(cands)
            self.features.add("data-trip-count-signal" if b[1] in sigs else "data-trip-count-local")
            bound = b if r.random() < 0.3 else ("bin", "&", b, ("num", 3))
            self.declare(w, "s")
            self.protected.add(w)
            body = self.body(depth - 1, r.randrange(1, 3), True)
            body.append(S("assign", w, [], "=", ("bin", "+", ("var", w), ("num", 1))))
            return [S("decl", w, [], ("num", 0)), S("while", ("bin", "<", ("var", w), bound), body)]
        if k == "nested-return" and depth > 0:
            # `return` inside a loop, inside a branch of a loop, inside an else
            self.features.add("nested-return")
            ret = S("return", self.expr(1))
            shape = r.randrange(4)
            if shape == 0:
                inner = [S("if", self.cond(1), self.body(depth - 1, r.randrange(0, 2), in_loop) + [ret], None)]
            elif shape == 1:
                inner = [S("if", self.cond(1), self.body(depth - 1, 1, in_loop), self.body(depth - 1, r.randrange(0, 2), in_loop) + [ret])]
            else:
                inner = [S("if", self.cond(1), [S("if", self.cond(0), [ret], None)], None)]
            if shape == 3 or r.random() < 0.6:
                self.n += 1
                i = "i%d" % self.n
                self.scopes.append([(i, "s")])
                self.protected.add(i)
                pre = self.body(depth - 1, r.randrange(0, 2), True)
                self.scopes.pop()
                bound = ("var", r.choice(self.params)) if (self.params and r.random() < 0.5) else ("num", r.randrange(1, 4))
                return [S("for", S("decl", i, [], ("num", 0)), ("bin", "<", ("var", i), bound), S("incr", i, "++"), pre + inner)]
            return inner
        if k == "ctl-partner" and depth > 0 and (self.sig_in and sc):
            # a local assigned under a branch on an input signal, then a constraint between it and another local:
            # the constraint mentions the input only through CONTROL dependence (branch regions)
            sigs = [n for n, l in self.sig_in if l is None]
            if not sigs:
                return None
            self.n += 1
            y, z = "cy%d" % self.n, "cz%d" % self.n
            self.features.add("ctl-partner")
            cnd = ("bin", r.choice(["==", "<", "!="]), ("var", r.choice(sigs)), self.lit())
            th = [S("assign", y, [], "=", self.lit())]
            shape = r.randrange(4)
            if shape == 1:      # the assignment sits in a loop inside the branch (branch starts at a loop)
                self.n += 1
                i = "i%d" % self.n
                th = [S("for", S("decl", i, [], ("num", 0)), ("bin", "<", ("var", i), ("num", 2)), S("incr", i, "++"), th)]
            elif shape == 2:    # nested branch
                th = [S("if", self.cond(0, sig_ok=False), th, [S("assign", y, [], "+=", ("num", 1))])]
            el = [S("assign", y, [], "=", self.lit())] if r.random() < 0.5 else None
            br = S("if", cnd, th, el)
            if shape == 3:      # the branch itself sits in a loop
                self.n += 1
                i = "i%d" % self.n
                br = S("for", S("decl", i, [], ("num", 0)), ("bin", "<", ("var", i), ("num", 2)), S("incr", i, "++"), [br])
            out = [S("decl", y, [], ("num", 0)), S("decl", z, [], self.expr(1, sig_ok=False)), br]
            if self.sig_mid and r.random() < 0.5:
                out.append(S("ceq", ("var", self.sig_mid[0][0]), ("bin", "*", ("var", y), ("var", z))))
            else:
                out.append(S("ceq", ("var", y), ("var", z)))
            return out
        return None

    def stmt(self, depth, in_loop):
        r = self.r
        if depth > 0 and r.random() < 0.05:
            return self.const_cond(depth, in_loop)
        if r.random() < 0.14:
            ex = self.extra(depth, in_loop)
            if ex:
                return ex
        if r.random() < 0.03:
            k = r.randrange(3)
            ex = self.merged_const_condition() if k == 0 else (self.const_loop(in_loop) if k == 1 else None)
            if ex:
                return ex
        if self.force and depth == self.depth and not in_loop:
            shape = self.force.pop()
            ex = {"long-chain": self.long_chain, "deep-region": lambda: self.many_blocks(True), "many-blocks": lambda: self.many_blocks(False),
                  "loop-nesting-3": self.nest3, "merged-const-condition": self.merged_const_condition,
                  "const-loop-cond": lambda: self.const_loop(False)}[shape]()
            if ex:
                return ex
        if depth == self.depth and not in_loop and r.random() < 0.012:
            # (graphs of more than 100 blocks cost the Gallina mirrors 20-40 s each: they come only as the fixed size probes
            #  of lib/props/C09.py::make_cases, never at random)
            return self.long_chain() if r.random() < 0.4 else self.nest3()
        c = r.random()
        sc = [x for x in self.scalars() if x not in self.protected]
        if c < 0.22 or not sc:
            n = self.fresh()
            if n in [x for x, _ in self.scopes[-1]] or n in self.params or n in [s for s, _ in self.sig_in + self.sig_out + self.sig_mid]:
                n = "v%d" % self.n          # no redeclaration in the same scope
            k = r.random()
            init = self.expr(2)
            if mentions(init, n):
                n = "v%d" % self.n          # `var x = .. x ..` in a nested scope would read the new, undefined x
            if k < 0.07:
                # declared without initialiser, assigned right away
                self.declare(n, "s")
                self.features.add("uninit-decl")
                return [S("decl", n, [], None), S("assign", n, [], "=", init)]
            self.declare(n, "s")
            if k < 0.3:
                self.features.add("dead-chain")
            return [S("decl", n, [], init)]
        if c < 0.30:
            n = "a%d" % self.n if self.alpha != "collide" else r.choice(["arr", "arr_0"]) + str(self.n)
            self.n += 1
            ln = r.randrange(1, 4)
            k = r.random()
            self.features.add("array-decl")
            if r.random() < 0.3:
                # two or three dimensions, written element-wise
                ln = tuple(r.randrange(1, 3) for _ in range(r.choice([2, 2, 3])))
                self.features.add("array-decl-multi")
                st = S("decl", n, [("num", d) for d in ln], None)
            elif k < 0.5:
                st = S("decl", n, [("num", ln)], ("arr", [self.expr(1) for _ in range(ln)]))
            elif k < 0.75 and self.params:
                # dimension depends on a parameter (dimension event); indexed with constants < 1 only
                st = S("decl", n, [("bin", "+", ("var", r.choice(self.params)), ("num", ln))], None)
                self.features.add("param-dim")
            else:
                st = S("decl", n, [("num", ln)], None)
            first = self.expr(1)
            self.declare(n, ("a", ln))
            if st[3] is None:
                # an array must be written before it is read (SSA conversion rejects the definition otherwise)
                return [st, S("assign", n, [("num", 0) for _ in dimsof(ln)], "=", first)]
            return [st]
        if c < 0.50:
            v = r.choice(sc)
            k = r.random()
            if k < 0.55:
                return [S("assign", v, [], "=", self.expr(2))]
            if k < 0.85:
                self.features.add("compound")
                return [S("assign", v, [], r.choice(["+=", "-=", "*="]), self.expr(1))]
            self.features.add("incdec")
            return [S("incr", v, r.choice(["++", "--"]))]
        if c < 0.57 and self.arrays():
            n, ln = r.choice(self.arrays())
            self.features.add("array-update")
            return [S("assign", n, self.indices(ln), r.choice(["=", "=", "+="]), self.expr(2))]
        if c < 0.70 and depth > 0:
            self.features.add("if")
            cnd = self.cond(1)
            th = self.body(depth - 1, r.randrange(1, 4), in_loop)
            el = None
            if r.random() < 0.5:
                self.features.add("else")
                el = self.body(depth - 1, r.randrange(1, 3), in_loop)
            if r.random() < 0.2:
                # a loop as the LAST statement of a branch (the branch is left from a loop header)
                self.features.add("branch-ends-in-loop")
                if el is not None and r.random() < 0.5:
                    el = el + self.simple_loop(in_loop)
                else:
                    th = th + self.simple_loop(in_loop)
            return [S("if", cnd, th, el)]
        if c < 0.82 and depth > 0:
            k = r.random()
            if k < 0.6:
                self.features.add("for")
                self.n += 1
                i = "i%d" % self.n
                bound = ("var", r.choice(self.params)) if (self.params and r.random() < 0.5) else ("num", r.randrange(0, 4))
                self.scopes.append([(i, "s")])
                self.protected.add(i)
                body = self.body(depth - 1, r.randrange(1, 4), True)
                self.scopes.pop()
                return [S("for", S("decl", i, [], ("num", 0)), ("bin", "<", ("var", i), bound), S("incr", i, "++"), body)]
            self.features.add("while")
            self.n += 1
            w = "w%d" % self.n
            self.declare(w, "s")
            self.protected.add(w)
            bound = ("var", r.choice(self.params)) if (self.params and r.random() < 0.4) else ("num", r.randrange(0, 4))
            body = self.body(depth - 1, r.randrange(1, 3), True)
            body.append(S("assign", w, [], "=", ("bin", "+", ("var", w), ("num", 1))))
            return [S("decl", w, [], ("num", 0)), S("while", ("bin", "<", ("var", w), bound), body)]
        if c < 0.85 and depth > 0:
            self.features.add("block")
            return [S("block", self.body(depth - 1, r.randrange(1, 4), in_loop))]
        if self.template:
            if c < 0.93 and (self.sig_out + self.sig_mid):
                tgt = self.sig_out + self.sig_out + self.sig_mid
                n, ln = r.choice(tgt)
                op = r.choice(["<--", "<==", "<--"])
                idx = self.indices(ln)
                e = self.expr(2, arith=(op == "<==" or r.random() < 0.4))
                self.features.add("sig" + op)
                return [S("sigassign", n, idx, op, e)]
            if c < 0.97:
                self.features.add("===")
                k = r.random()
                if k < 0.35 and sc:
                    # a constraint with a single name
                    self.features.add("single-name-constraint")
                    return [S("ceq", ("var", r.choice(sc)), self.lit())]
                return [S("ceq", self.expr(1, arith=True), self.expr(1, arith=True))]
        if c < 0.985:
            self.features.add("assert")
            return [S("assert", self.cond(1))]
        self.features.add("log")
        return [S("log", self.expr(1))]

    def program(self):
        r = self.r
        self.params = ["p%d" % i for i in range(r.randrange(0, 4))]
        if self.alpha == "collide" and self.params and r.random() < 0.5:
            self.params[0] = "x"
        body = []
        if self.template:
            for i in range(r.randrange(1, 3)):
                k = r.random()
                ln = None if k < 0.6 else (r.randrange(1, 3) if k < 0.85 else (r.randrange(1, 3), r.randrange(1, 3)))
                self.sig_in.append(("in%d" % i, ln))
                body.append(S("sigdecl", "input", "in%d" % i, [("num", d) for d in dimsof(ln)]))
            for i in range(r.randrange(1, 3)):
                k = r.random()
                ln = None if k < 0.5 else (r.randrange(1, 3) if k < 0.75 else
                                           tuple(r.randrange(1, 3) for _ in range(r.choice([2, 2, 3]))))
                self.sig_out.append(("out%d" % i, ln))
                dims = [("num", d) for d in dimsof(ln)]
                body.append(S("sigdecl", "output", "out%d" % i, dims))
            if r.random() < 0.35:
                self.sig_mid.append(("mid0", None))
                body.append(S("sigdecl", "mid", "mid0", []))
        for _ in range(self.size):
            body += self.stmt(self.depth, False)
            if not self.template and r.random() < 0.06:
                self.features.add("early-return")
                body.append(S("if", self.cond(1), [S("return", self.expr(1))], None))
        tails = [t for t in self.chain_tails if t in self.scalars()]
        if not self.template:
            e = self.expr(2, prefer=self.scalars()[-3:] or None)
            for t in tails:
                e = ("bin", "+", e, ("var", t))
            body.append(S("return", e))
        else:
            for t in tails:
                if self.sig_out:
                    n, ln = self.sig_out[0]
                    src = [("var", x) for x, l in self.sig_in if l is None] or [("num", 1)]
                    body.append(S("sigassign", n, [("num", 0) for _ in dimsof(ln)], r.choice(["<==", "<--"]),
                                  ("bin", "+", r.choice(src), ("var", t))))
            # make sure something flows somewhere
            sc = self.scalars()
            if sc and self.sig_out:
                n, ln = self.sig_out[0]
                idx = [("num", 0) for _ in dimsof(ln)]
                body.append(S("sigassign", n, idx, "<--", self.expr(1, prefer=sc[-3:])))
            k = r.random()
            if k < 0.10:
                # the definition ENDS in a loop: no block without successor, the loop header is the exit
                self.features.add("trailing-loop")
                if r.random() < 0.5:
                    self.features.add("trailing-loop-with-control")
                    body += self.simple_loop(False, inner=r.choice([1, 1, 2]))
                else:
                    body += self.simple_loop(False)
            elif k < 0.17 and r.random() < 0.2:
                # the definition ends in a loop whose condition is a constant true (never left)
                self.features.add("trailing-loop")
                self.features.add("const-loop-cond")
                self.features.add("while-true")
                body.append(S("while", ("num", 1), self.body(1, r.randrange(1, 3), True)))
            elif k < 0.17:
                # ... or in a branch whose last statement is a loop
                self.features.add("trailing-loop")
                self.features.add("branch-ends-in-loop")
                th = self.body(1, r.randrange(0, 2), False) + self.simple_loop(False)
                el = (self.body(1, r.randrange(0, 2), False) + self.simple_loop(False)) if r.random() < 0.4 else None
                body.append(S("if", self.cond(1), th, el))
        return {"kind": "template" if self.template else "function", "name": "T" if self.template else "f",
                "params": list(self.params), "body": body,
                "sig_in": list(self.sig_in), "features": sorted(self.features)}


# ---------------------------------------------------------------------------
# rendering with spans
# ---------------------------------------------------------------------------

def rexpr(e):
    t = e[0]
    if t == "num":
        return str(e[1])
    if t == "var":
        return e[1]
    if t == "idx":
        return e[1] + "".join("[%s]" % rexpr(i) for i in e[2])
    if t == "bin":
        return "(%s %s %s)" % (rexpr(e[2]), e[1], rexpr(e[3]))
    if t == "un":
        return "(%s%s)" % (e[1], rexpr(e[2]))
    if t == "tern":
        return "(%s ? %s : %s)" % (rexpr(e[1]), rexpr(e[2]), rexpr(e[3]))
    if t == "call":
        return "%s(%s)" % (e[1], ", ".join(rexpr(a) for a in e[2]))
    if t == "arr":
        return "[%s]" % ", ".join(rexpr(a) for a in e[1])
    if t == "port":
        return "%s.%s" % (e[1], e[2])
    if t == "anon":
        return "%s(%s)(%s)" % (e[1], ", ".join(rexpr(a) for a in e[2]), ", ".join(rexpr(a) for a in e[3]))
    raise ValueError(t)


class Renderer:
    def __init__(self):
        self.buf = []
        self.pos = 0
        self.nid = 0

    def w(self, s):
        self.buf.append(s)
        self.pos += len(s.encode())

    def simple(self, st, text, indent, semi=True, nl=True):
        self.w(indent)
        a = self.pos
        self.w(text)
        st[-1]["span"] = (a, self.pos)
        self.nid += 1
        st[-1]["id"] = self.nid
        if semi:
            self.w(";")
        if nl:
            self.w("\n")

    def text_of(self, st):
        t = st[0]
        if t == "decl":
            s = "var " + st[1] + "".join("[%s]" % rexpr(d) for d in st[2])
            if st[3] is not None:
                s += " = " + rexpr(st[3])
            return s
        if t == "sigdecl":
            kw = {"input": "signal input ", "output": "signal output ", "mid": "signal "}[st[1]]
            return kw + st[2] + "".join("[%s]" % rexpr(d) for d in st[3])
        if t == "assign":
            return "%s%s %s %s" % (st[1], "".join("[%s]" % rexpr(i) for i in st[2]), st[3], rexpr(st[4]))
        if t == "incr":
            return st[1] + st[2]
        if t == "sigassign":
            return "%s%s %s %s" % (st[1], "".join("[%s]" % rexpr(i) for i in st[2]), st[3], rexpr(st[4]))
        if t == "compdecl":
            return "component %s = %s(%s)" % (st[1], st[2], ", ".join(rexpr(a) for a in st[3]))
        if t == "portassign":
            return "%s.%s %s %s" % (st[1], st[2], st[3], rexpr(st[4]))
        if t == "tupledecl":
            return "var (%s) = (%s)" % (", ".join(st[1]), ", ".join(rexpr(e) for e in st[2]))
        if t == "ceq":
            return "%s === %s" % (rexpr(st[1]), rexpr(st[2]))
        if t == "assert":
            return "assert(%s)" % rexpr(st[1])
        if t == "log":
            return "log(%s)" % rexpr(st[1])
        if t == "return":
            return "return %s" % rexpr(st[1])
        raise ValueError(t)

    def stmts(self, ss, indent):
        for st in ss:
            self.stmt(st, indent)

    def stmt(self, st, indent):
        t = st[0]
        if t == "if":
            self.nid += 1
            st[-1]["id"] = self.nid
            self.w("%sif (%s) {\n" % (indent, rexpr(st[1])))
            self.stmts(st[2], indent + "  ")
            if st[3] is not None:
                self.w("%s} else {\n" % indent)
                self.stmts(st[3], indent + "  ")
            self.w("%s}\n" % indent)
        elif t == "while":
            self.nid += 1
            st[-1]["id"] = self.nid
            self.w("%swhile (%s) {\n" % (indent, rexpr(st[1])))
            self.stmts(st[2], indent + "  ")
            self.w("%s}\n" % indent)
        elif t == "for":
            self.nid += 1
            st[-1]["id"] = self.nid
            self.w("%sfor (" % indent)
            self.simple(st[1], self.text_of(st[1]), "", semi=True, nl=False)
            self.w(" %s; " % rexpr(st[2]))
            self.simple(st[3], self.text_of(st[3]), "", semi=False, nl=False)
            self.w(") {\n")
            self.stmts(st[4], indent + "  ")
            self.w("%s}\n" % indent)
        elif t == "block":
            self.w("%s{\n" % indent)
            self.stmts(st[1], indent + "  ")
            self.w("%s}\n" % indent)
        else:
            self.simple(st, self.text_of(st), indent)


def render(prog):
    """Returns the source text; fills in spans and ids."""
    r = Renderer()
    r.w("%s %s(%s) {\n" % (prog["kind"], prog["name"], ", ".join(prog["params"])))
    r.stmts(prog["body"], "  ")
    r.w("}\n")
    if prog.get("helpers") or uses_helpers(prog["body"]):
        prog["helpers"] = True
        r.w(HELPERS)
    return "".join(r.buf)


def uses_helpers(x):
    if isinstance(x, (list, tuple)):
        if x and x[0] in ("compdecl", "portassign", "tupledecl", "anon", "port"):
            return True
        return any(uses_helpers(y) for y in x)
    return False


def wire_line(prog):
    """The line handed to the harness: hex of the source, prefixed with `file:` when the source is a whole
    file (definition + helper templates) that has to go through the real desugarer."""
    h = prog["source"].encode().hex()
    return ("file:" + h) if prog.get("helpers") else h


def forced(rng, shape, tries=400):
    """A generated definition that contains the given shape (size probes / required shapes): the shape is forced at the first
    top-level statement; retried until the feature is there (a template without a scalar input cannot hold every shape)."""
    want = {"while-true": "while-true", "trailing-loop-with-control": "trailing-loop-with-control"}
    for _ in range(tries):
        if shape in want:
            p = generate(rng, template=True)
        else:
            p = generate(rng, template=True if shape in ("deep-region", "merged-const-condition") else None, force=(shape,),
                         size=rng.randrange(2, 5))
        if shape in p["features"]:
            return p
    raise RuntimeError("c09gen.forced: shape %s not produced in %d tries" % (shape, tries))


def generate(rng, **kw):
    if "depth" not in kw and rng.random() < 0.12:
        # nesting depth 3 (three loops, a branch in two loops, ..), fewer top-level statements
        kw = dict(kw, depth=3, size=rng.randrange(2, 6))
    g = Gen(rng, **kw)
    prog = g.program()
    prog["alphabet"] = g.alpha
    prog["source"] = render(prog)
    return prog
