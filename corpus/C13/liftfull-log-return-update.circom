function g(x) {
  var a[2][2];
  a[0][x] = x ? 1 : 2;
  log("first", a[0][0], "second", x + 1);
  assert(a[0][1] != x);
  return a[1][0] + x;
}
