template A() { signal input x[2]; signal output y; y <== x[0] + x[1]; }
template T(n) {
  signal input a; signal output b[2]; component c[2];
  for (var i = 0; i < 2; i++) { c[i] = A(); c[i].x[0] <-- a; a * i --> c[i].x[1]; b[i] <== c[i].y; }
  component d = A(); d.x[0] <-- a; d.x[1] <== a; b[0] === d.y;
}
