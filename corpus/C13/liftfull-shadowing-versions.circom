function f(x, n) {
  var y = 1;
  if (x < y) { var x = 3; y = x; { var x = 4; var a[x][n]; a[x - 1][0] = x; y += a[0][0]; } y = x; }
  else { var x = 5; y = x; }
  for (var i = 0; i < n; i++) { var t = i; y += t; }
  for (var i = 0; i < n; i++) { var t = i * 2; y += t; }
  return x + y;
}
