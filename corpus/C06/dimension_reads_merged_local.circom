template T(m) { signal input a; signal output out; var n = 3; if (m > 2) { n = n + 1; } var t[n]; var k = 3; k += 1; signal s[k + 1]; t[0] = a * a; out <-- t[0] * n; }
