function g() { var a = 5 % 0; var b = 1 << 100000000000; return a + b + (~0); }
