function f() { var a = 256 & 18446744073709551616; if (a == 0) { return 1; } return a; }
// curve:GOLDILOCKS
