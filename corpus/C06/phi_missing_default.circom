function f(x) { var y; if (x == 3) { y = 255; } if (y == 255) { return 1; } return y; }
