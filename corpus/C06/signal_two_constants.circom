template T(n) { signal output out; if (n == 0) { out <== 1; } else { out <== 2; } }
