template U(n){ signal input a; signal output b; var x = 0; if (1 == 1) { if (a == 1) { x = 5; } } b <-- x; }
