template T() { signal input a; signal output b; signal output c; b <-- ~a; c <-- !a; }
