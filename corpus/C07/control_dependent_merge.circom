template T() { signal input a; signal output b; var x; if (a == 1) { x = 1; } else { x = 2; } b <-- x; }
