template T() { signal input a; signal output b; signal output c; var t[5] = [1, 2, 4, 8, 16]; b <-- t[a]; var u[2]; u[0] = ext(a); u[1] = 1; c <-- u[0]; }
