template W() { signal input a; signal output b; var x = 1; var i = 0; while (i < a) { x = 2; i += 1; } b <-- x; }
