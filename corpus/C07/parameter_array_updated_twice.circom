template T(arr) { signal input a; signal output b; arr[0] = a*a*a; arr[1] = 1; b <-- arr[0]; }
