template T(n) { signal input a; signal output out; component c = X(n); c.in <== a; out <-- c.out * c.out * c.out; }
