template T(n){ signal input a; signal output b; var x; if (n == 3) { if (a == 1) { x = 1; } else { x = 2; } } else { x = 3; } b <-- x; }
