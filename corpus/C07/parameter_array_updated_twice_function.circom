function f(arr, a) { arr[0] = a*a*a; arr[1] = 1; return arr[0]; }
