template T(n) { signal input a; signal input sel; signal output out; component c = X(n); c.in <== a; out <-- c.out[sel]; }
