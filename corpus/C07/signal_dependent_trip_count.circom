template T() { signal input a; signal output b; var i = 0; var x = 1; var y = 0; while (i < a) { y = a * a; x = x * a; i += 1; } b <-- y + x; }
