function f(n) { var x = 0; if (n > 1) { x = 1; } else { x = 2; } return x; }
