function f(n) { var t[2]; t[0] = n; t[1] = 2; return t[0]; }
