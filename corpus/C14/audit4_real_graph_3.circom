function f(n) { var w = 1; var t[2]; t[0] = w; return w + n + t[0]; }
