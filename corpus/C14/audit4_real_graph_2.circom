template T(n) { signal input a; signal output out; var x = 0; component c = X(n); if (n == 1) { x = 1; } c.in <== a; out <== a * x; }
