function f(x) { var n = 2; n = n + 1; var t[n]; t[0] = n; return t[0] + n; }
