function f(n) { var y; var x = 0; if (n == 1) { y = 2; x = 1; } return y + x; }
