#!/usr/bin/env bash
# Mirror mutation for C19 (not part of ./check; a reproducible record).
#
# Question: if Model/Includes.v were updated to FOLLOW the seeded change
# seeded/C02-user-input-by-pop-order (= seeded/C19-named-file-included-first:
# stack entries carry their origin, user_inputs is filled in take_next from the
# entry that happens to be popped first), would a proof obligation break?
#
# This script derives that variant mirror from the current coq/model/Includes.v
# by five textual edits and proves, by evaluation, that the CONCLUSION of
# C19_named_file_is_user_input is false for it on the witness file system of
# C19_argument_order_witness (lib.circom main.circom): lib.circom is on the
# command line, is not a directory, canonicalises to /r/lib.circom, and yet its
# FileLibrary entry carries `false` and is_user_input answers false; in the
# other argument order it is a user input (so
# C19_user_inputs_independent_of_argument_order fails as well).
# Exit 0 = the variant is refuted as expected.
set -eu
HERE=$(cd "$(dirname "${BASH_SOURCE[0]}")" && pwd)
VERIF=$(cd "$HERE/../../.." && pwd)
T=$(mktemp -d /tmp/c19-mirror-mutation.XXXXXX)
trap 'rm -rf "$T"' EXIT
python3 - "$VERIF/coq/model/Includes.v" "$T" <<'PY'
import sys
s = open(sys.argv[1]).read()
def rep(a, b):
    global s
    assert s.count(a) == 1, a
    s = s.replace(a, b)
rep("    stack : list path }.", "    stack : list (path * bool) }.")
rep("(libraries st) (p :: stack st).", "(libraries st) ((p, false) :: stack st).")
rep("    Ok (FileStack None [] r.1 ls r.1, r.2).",
    "    Ok (FileStack None [] [] ls (map (fun c => (c, true)) r.1), r.2).")
# fourth audit: `new` now goes through add_files_once (fix 517e7a0); `new_all` above is the code before it
rep("    Ok (FileStack None [] r.2.1 ls r.2.1, r.2.2).",
    "    Ok (FileStack None [] [] ls (map (fun c => (c, true)) r.2.1), r.2.2).")
rep("""  Fixpoint pop_next (black : list path) (stk : list path) : option (path * list path) :=
    match stk with
    | [] => None
    | p :: rest => if decide (p ∈ black) then pop_next black rest else Some (p, rest)
    end.""",
"""  Fixpoint pop_next (black : list path) (stk : list (path * bool)) : option ((path * bool) * list (path * bool)) :=
    match stk with
    | [] => None
    | p :: rest => if decide (p.1 ∈ black) then pop_next black rest else Some (p, rest)
    end.""")
rep("      (Some p, FileStack (Some (parent p)) (p :: black_paths st) (user_inputs st) (libraries st) rest)",
    """      (Some p.1, FileStack (Some (parent p.1)) (p.1 :: black_paths st)
                          (if p.2 then p.1 :: user_inputs st else user_inputs st) (libraries st) rest)""")
open(sys.argv[2] + "/IncludesMut.v", "w").write(s)
PY
cat > "$T/Demo.v" <<'COQ'
From Coq Require Import ZArith Ascii String.
From stdpp Require Import list strings.
Require Import IncludesMut.
Definition ord_fs : fs_data := FsData
  [ (str "main.circom", Some (str "/r/main.circom"));
    (str "lib.circom", Some (str "/r/lib.circom"));
    (str "/r/main.circom", Some (str "/r/main.circom"));
    (str "/r/lib.circom", Some (str "/r/lib.circom"));
    (str "/r/inc.circom", Some (str "/r/inc.circom")) ]
  [ ]
  [ str "/r/main.circom"; str "/r/lib.circom"; str "/r/inc.circom" ]
  [ (str "/r/main.circom", Parsed [(str "lib.circom", 21, 42); (str "inc.circom", 43, 64)]);
    (str "/r/lib.circom", Parsed []);
    (str "/r/inc.circom", Parsed []) ].
Lemma variant_refutes_named_file_is_user_input :
  canon_idempotent_b ord_fs = true /\
  exists s, run_project false ord_fs [str "lib.circom"; str "main.circom"] [] = Ok s /\
    str "lib.circom" ∈ [str "lib.circom"; str "main.circom"] /\
    d_is_dir ord_fs (str "lib.circom") = false /\
    d_canon ord_fs (str "lib.circom") = Some (str "/r/lib.circom") /\
    ps_files s !! 2 = Some (str "/r/lib.circom", false) /\
    is_user_input (ps_stack s) (str "/r/lib.circom") = false.
Proof. split; [vm_compute; reflexivity|]. eexists. split; [vm_compute; reflexivity|].
  split; [left|]. repeat split; vm_compute; reflexivity. Qed.
Lemma variant_is_order_dependent :
  exists s, run_project false ord_fs [str "main.circom"; str "lib.circom"] [] = Ok s /\
    ps_files s !! 0 = Some (str "/r/lib.circom", true).
Proof. eexists. split; vm_compute; reflexivity. Qed.
COQ
cd "$T"
timeout 300 coqc -Q "$VERIF/coq/model" Model -Q . "" IncludesMut.v
timeout 300 coqc -Q "$VERIF/coq/model" Model -Q . "" Demo.v
echo "variant mirror refutes C19_named_file_is_user_input and C19_user_inputs_independent_of_argument_order, as expected"
