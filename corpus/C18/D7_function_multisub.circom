pragma circom 2.0.0;
function f(){ 1 = 2; return 0; }
template T() { signal input a; signal output b; b <== a + f(); }
component main = T();
