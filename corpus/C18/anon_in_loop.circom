pragma circom 2.0.0;
template Sub0(){signal input in1; signal output o; o <-- in1*in1; }
template T(n){signal input x; signal output y[2]; for (var j=0;j<n;j++){ y[j] <== Sub0()(in1 <-- x); } }
component main = T(2);
