pragma circom 2.0.0;
template A() { signal input x; signal output y1; signal output y2; y1 <== x; y2 <== x; }
template T() {
  signal input a;
  signal output o[2];
  signal output r;
  for (var i = 0; i < 2; i++) { (o[i], _) <== A()(a); }
  (r, _) <== A()(a);
}
component main = T();
