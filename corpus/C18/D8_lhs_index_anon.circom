pragma circom 2.0.0;
template A() { signal input x; signal output y; y <== x; }
template T() { signal input a; signal output arr[2]; arr[A()(a)] <== a; }
component main = T();
