pragma circom 2.0.0;
template A() { signal input x; signal output y; y <== x; }
template T() { signal input a; signal output b; b <== a; assert(A()(a) == 1); }
component main = T();
