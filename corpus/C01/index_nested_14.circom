pragma circom 2.0.0;
function f(a) { var x = 0; var y[2] = [0,1]; x = y[y[y[y[y[y[y[y[y[y[y[y[y[y[0]]]]]]]]]]]]]]; return x; }
