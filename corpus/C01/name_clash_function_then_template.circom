function T(){ return 1; }
template T(){ signal input a; signal output b; b <== a; }
component main = T();
