pragma circom 2.0.0;
function f(){ return 0x; }
