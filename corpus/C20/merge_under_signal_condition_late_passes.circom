template T(n) { signal input a; signal output b; var x = 1; if (n > 1) { if (a == 2) { x = a; } } b <-- x * a; }
